"""Driver: regenerate a scratch copy of /repo, append harnesses / apply cuts / swap environment
models, run Kani (CBMC + SAT) per harness, classify, replay, write evidence.

Exit codes of a check:  0 = every solver verdict inside the stated bounds was "holds"
                        1 = a violation reproduced by replay (VIOLATION line printed)
                        2 = inconclusive (timeout, out of memory, cannot encode, vacuous, replay
                            did not reproduce) -- never reported as a pass, never as a violation
"""
import importlib.util
import json
import os
import re
import shutil
import subprocess
import sys
import tempfile
import time
from concurrent.futures import ThreadPoolExecutor

from . import cut

VERIF = os.path.dirname(os.path.dirname(os.path.abspath(__file__)))
REPO = os.environ.get('VERIF_REPO', '/repo')
CACHE = os.path.join(VERIF, '.cache')
ENV_DIR = os.path.join(VERIF, 'env')

# dependency-table rewrites: crate name resolves to an environment model (package rename)
SHIMS = {
    'openssl': ('acme_common/Cargo.toml', r'^openssl = \{ version = "[^"]+", optional = true \}',
                'openssl = {{ package = "openssl_env", path = "{env}/openssl_env", optional = true }}'),
    'tokio': ('acmed/Cargo.toml', r'^tokio = \{ version = "[^"]+", features = \["full"\] \}',
              'tokio = {{ package = "tokio_env", path = "{env}/tokio_env", features = ["full"] }}'),
    'async-lock': ('acmed/Cargo.toml', r'^async-lock = "[^"]+"',
                   'async-lock = {{ package = "async_lock_env", path = "{env}/async_lock_env" }}'),
    'nix': ('acmed/Cargo.toml', r'^nix = \{ version = "[^"]+", features = \["fs", "user"\] \}',
            'nix = {{ package = "nix_env", path = "{env}/nix_env", features = ["fs", "user"] }}'),
    'reqwest': ('acmed/Cargo.toml', r'^reqwest = "[^"]+"',
                'reqwest = {{ package = "reqwest_env", path = "{env}/reqwest_env" }}'),
    'async-process': ('acmed/Cargo.toml', r'^async-process = "[^"]+"',
                      'async-process = {{ package = "async_process_env", path = "{env}/async_process_env" }}'),
    'rand': ('acmed/Cargo.toml', r'^rand = "[^"]+"',
             'rand = {{ package = "rand_env", path = "{env}/rand_env" }}'),
}


def log(*a):
    print(*a, file=sys.stderr, flush=True)


def load_spec(pid):
    p = os.path.join(VERIF, 'props', pid + '.py')
    if not os.path.exists(p):
        raise SystemExit(f"no spec for {pid}")
    sp = importlib.util.spec_from_file_location('prop_' + pid, p)
    m = importlib.util.module_from_spec(sp)
    sp.loader.exec_module(m)
    return m.SPEC


def read_aux(rel):
    return open(os.path.join(VERIF, rel)).read()


def mod_path_of(relfile):
    # acmed/src/acme_proto/http.rs -> acme_proto::http ; main.rs / lib.rs -> ''
    p = relfile.split('/src/', 1)[1]
    p = p[:-3]
    if p in ('main', 'lib'):
        return ''
    return p.replace('/', '::')


class Unit:
    def __init__(self, pid, u):
        self.pid = pid
        self.u = u
        self.name = u['name']
        self.pkg = u.get('pkg', 'acmed')
        self.dir = None

    def generate(self, base):
        """rsync /repo working tree -> scratch; rewrite dependency tables; apply edits."""
        d = os.path.join(base, 'src_' + self.name)
        os.makedirs(d)
        subprocess.run(['rsync', '-a', '--exclude', 'target', '--exclude', '.git', REPO + '/', d + '/'], check=True)
        # drop tacd from the scratch workspace: it is not analysed and would pull the real openssl
        ws = os.path.join(d, 'Cargo.toml')
        s = open(ws).read()
        s = s.replace('    "tacd",\n', '')
        open(ws, 'w').write(s)
        for shim in self.u.get('shims', []):
            f, pat, rep = SHIMS[shim]
            p = os.path.join(d, f)
            s = open(p).read()
            s2, n = re.subn(pat, rep.format(env=ENV_DIR), s, flags=re.M)
            if n != 1:
                raise cut.EncodeError(f"shim {shim}: dependency line not found in {f}")
            open(p, 'w').write(s2)
        edits = list(self.u.get('edits', []))
        # acmed/build.rs locates Cargo.lock through env!("CARGO_MANIFEST_DIR"), i.e. the path is frozen
        # into the build-script BINARY; cargo reuses that binary from the dependency cache for later
        # scratch copies (it does not track CARGO_* variables), so a deleted earlier scratch directory
        # made the script lose ACMED_HTTP_LIB_*. The scratch copy reads the variable at run time instead.
        edits.insert(0, {'file': 'acmed/build.rs', 'replace': 'PathBuf::from(env!("CARGO_MANIFEST_DIR"))',
                         'with': 'PathBuf::from(std::env::var("CARGO_MANIFEST_DIR").unwrap())', 'count': None})
        # the shared harness prelude goes into the crate root
        root = 'acmed/src/main.rs' if self.pkg == 'acmed' else 'acme_common/src/lib.rs'
        prelude = read_aux('harness/_env.rs')
        edits.insert(0, {'file': root, 'append': '#[cfg(kani)]\n#[allow(dead_code, unused_imports, static_mut_refs)]\npub mod verif_env {\n' + prelude + '\n}\n'})
        for relfile, hfiles in self.u.get('harness_files', {}).items():
            if isinstance(hfiles, str):
                hfiles = [hfiles]
            body = '\n'.join(read_aux(h) for h in hfiles)
            edits.append({'file': relfile, 'append':
                          '#[cfg(kani)]\n#[allow(dead_code, unused_imports, unused_variables, unused_mut, static_mut_refs, non_snake_case)]\nmod verif_h {\n'
                          'use super::*;\n' + body + '\n// VERIF_PLAYBACK_ANCHOR\n}\n'})
        gen = self.u.get('gen')
        cache = {}
        for e in edits:
            p = os.path.join(d, e['file'])
            if p not in cache:
                cache[p] = open(p).read()
            cache[p] = cut.apply_edit(cache[p], e, read_aux)
        if gen:
            gen(d, cache, cut)
        for p, s in cache.items():
            open(p, 'w').write(s)
        self.dir = d
        # settle Cargo.lock once so that parallel builds only read it
        r = subprocess.run(['cargo', 'metadata', '--offline', '--format-version', '1'], cwd=os.path.join(d, self.pkg),
                           stdout=subprocess.DEVNULL, stderr=subprocess.PIPE, text=True,
                           env=dict(os.environ, CARGO_NET_OFFLINE='true'))
        if r.returncode != 0:
            raise cut.EncodeError('cargo metadata failed: ' + r.stderr[-2000:])
        return d


def seed_target(dst):
    src = os.path.join(CACHE, 'target')
    if os.path.isdir(src):
        subprocess.run(['cp', '-a', '--reflink=auto', src, dst], check=True)
    else:
        os.makedirs(dst, exist_ok=True)


def kani_cmd(unit, h, tgt, out_json, playback=False, unwindset=None):
    cmd = ['cargo', 'kani', '--target-dir', tgt, '--harness', h['full'], '--exact',
           '--output-format', 'terse', '-Z', 'unstable-options', '-Z', 'stubbing', '--export-json', out_json]
    if unit.u.get('features'):
        cmd += ['--features', unit.u['features']]
    if playback:
        cmd += ['-Z', 'concrete-playback', '--concrete-playback=print']
    if os.environ.get('VERIF_VERBOSE'):
        cmd += ['--verbose']
    if not h.get('memsafe'):
        # CBMC's raw-pointer checks are not the subject of any property (safe Rust; Rust's own
        # bounds/overflow/unwrap panics stay on as assertions) and triple symbolic-execution time
        cmd += ['--no-memory-safety-checks']
    cmd += h.get('args', [])
    if h.get('solver'):
        cmd += ['--solver', h['solver']]
    cbmc_args = list(h.get('cbmc_args', []))
    if unwindset:
        cbmc_args += ['--unwindset', ','.join('%s:%d' % (k, v) for k, v in unwindset)]
    if cbmc_args:
        cmd += ['--cbmc-args'] + cbmc_args
    return cmd


def discover_unwindset(unit, h, tgt, env, logf):
    """Pre-pass: list the loops of the linked GOTO program (cbmc --show-loops through Kani) and map
    the harness's {regex on pretty function name: bound} table to CBMC loop ids."""
    cmd = ['cargo', 'kani', '--target-dir', tgt, '--harness', h['full'], '--exact', '--output-format', 'old',
           '-Z', 'unstable-options', '-Z', 'stubbing']
    if unit.u.get('features'):
        cmd += ['--features', unit.u['features']]
    if not h.get('memsafe'):
        cmd += ['--no-memory-safety-checks']
    cmd += h.get('args', [])
    cmd += ['--cbmc-args', '--show-loops']
    r = subprocess.run(['timeout', '900'] + cmd, cwd=os.path.join(unit.dir, unit.pkg), stdout=subprocess.PIPE, stderr=subprocess.STDOUT, env=env, text=True, errors='replace')
    open(logf + '.loops', 'w').write(r.stdout)
    loops = re.findall(r'^Loop (\S+):\n\s+file .*? function (.*)$', r.stdout, re.M)
    out = []
    table = h['unwindset']
    used = set()
    for lid, fn in loops:
        for pat, k in table.items():
            if re.search(pat, fn):
                out.append((lid, k))
                used.add(pat)
                break
    missing = [p for p in table if p not in used]
    return out, missing


def run_harness(unit, h, base, tier, memlimit_kb, playback=False):
    """Run one harness in its own target dir. Returns a result dict."""
    t0 = time.time()
    sfx = '_pb' if playback else ''
    tgt = os.path.join(base, 'tgt_' + h['name'] + sfx)
    seed_target(tgt)
    out_json = os.path.join(base, 'out_' + h['name'] + sfx + '.json')
    logf = os.path.join(base, 'log_' + h['name'] + sfx + '.txt')
    timeout = h.get('timeout_' + tier, h.get('timeout', 900 if tier == 'quick' else 3600))
    if playback:
        timeout = timeout * 2 + 300
    env = dict(os.environ, CARGO_NET_OFFLINE='true', CARGO_TERM_COLOR='never')
    env.pop('RUSTUP_TOOLCHAIN', None)
    uw = None
    if h.get('unwindset'):
        uw, missing = discover_unwindset(unit, h, tgt, env, logf)
        if missing and not os.path.exists(logf + '.loops'):
            pass
    cmd = kani_cmd(unit, h, tgt, out_json, playback, uw)
    if h.get('mem_gb'):
        memlimit_kb = max(memlimit_kb, int(h['mem_gb']) * 1024 * 1024)
    sh = 'ulimit -v %d; exec timeout -k 10 %d %s' % (memlimit_kb, timeout, ' '.join("'" + c + "'" for c in cmd))
    with open(logf, 'w') as lf:
        rc = subprocess.run(['bash', '-c', sh], cwd=os.path.join(unit.dir, unit.pkg), stdout=lf, stderr=subprocess.STDOUT, env=env).returncode
    wall = time.time() - t0
    res = parse_result(h, rc, out_json, logf)
    res['wall_s'] = round(wall, 1)
    res['timeout_s'] = timeout
    res['tier'] = tier
    res['mem_kb'] = memlimit_kb
    res['unit'] = unit.name
    if not os.environ.get('VERIF_KEEP'):
        shutil.rmtree(tgt, ignore_errors=True)
    return res


UNWIND_RE = re.compile(r'unwinding assertion')


def parse_result(h, rc, out_json, logf):
    logtxt = open(logf, errors='replace').read()
    res = {'harness': h['name'], 'full': h['full'], 'rc': rc, 'status': 'inconclusive', 'reason': '',
           'failed': [], 'covers': {'satisfied': 0, 'unsatisfiable': 0, 'unreachable': 0}, 'checks_total': 0,
           'checks_reachable_repo': 0, 'stats': {}, 'log': logf, 'functions': []}
    if rc in (124, 137):
        res['reason'] = 'timeout'
        return res
    if 'error: could not compile' in logtxt or 'error[E' in logtxt:
        res['reason'] = 'cannot encode: scratch crate does not compile under Kani'
        res['status'] = 'encode_error'
        return res
    if 'Kani compiler' in logtxt and 'internal compiler error' in logtxt or 'Kani unexpectedly panicked' in logtxt:
        res['reason'] = 'cannot encode: Kani compiler crashed'
        res['status'] = 'encode_error'
        return res
    if not os.path.exists(out_json):
        if 'no harnesses matched' in logtxt or 'No proof harnesses' in logtxt:
            res['reason'] = 'cannot encode: harness not found'
            res['status'] = 'encode_error'
        else:
            res['reason'] = 'no verdict: Kani produced no result file (rc=%d)' % rc
        return res
    try:
        d = json.load(open(out_json))
    except Exception as e:
        res['reason'] = 'unreadable result file: %s' % e
        return res
    results = d.get('verification_results', {}).get('results', [])
    if not results:
        res['reason'] = 'no harness result in export'
        return res
    r = results[0]
    for c in d.get('cbmc', []):
        res['stats'] = c.get('cbmc_stats', {})
    checks = r.get('checks', [])
    res['checks_total'] = len(checks)
    failed = []
    unwind_fail = False
    undetermined = 0
    fnset = set()
    for c in checks:
        st = c.get('status', '')
        desc = c.get('description', '')
        loc = c.get('location') or {}
        fn = c.get('function', '') or ''
        cat = c.get('category', '')
        locs = '%s:%s' % (loc.get('file', ''), loc.get('line', '')) if isinstance(loc, dict) and loc else ''
        in_repo = locs.startswith('acmed/') or locs.startswith('acme_common/')
        if cat == 'cover' or st in ('Satisfied', 'Unsatisfiable', 'Uncoverable'):
            if st == 'Satisfied':
                res['covers']['satisfied'] += 1
            elif st == 'Unsatisfiable':
                res['covers']['unsatisfiable'] += 1
                res.setdefault('cover_unsat', []).append(desc + ' @' + locs)
            else:
                res['covers']['unreachable'] += 1
                res.setdefault('cover_unsat', []).append(desc + ' @' + locs)
            continue
        if st != 'Unreachable' and in_repo:
            res['checks_reachable_repo'] += 1
            if 'verif_h' not in fn and 'verif_env' not in fn:
                fnset.add(fn)
        if st == 'Failure':
            if UNWIND_RE.search(desc) and h.get('unwind_violation') and re.search(h['unwind_violation'], desc + ' ' + fn):
                failed.append({'description': desc + ' (bound exceeds every legitimate depth: unbounded recursion/loop)', 'location': locs, 'function': fn, 'category': cat})
            elif UNWIND_RE.search(desc):
                unwind_fail = True
                res.setdefault('unwind_failures', []).append(desc + ' @' + locs + ' in ' + fn)
            else:
                failed.append({'description': desc, 'location': locs, 'function': fn, 'category': cat})
        elif st == 'Undetermined':
            undetermined += 1
    res['functions'] = sorted(fnset)
    res['failed'] = failed
    status = r.get('status', '')
    if 'CBMC failed with status' in logtxt:
        m = re.search(r'CBMC failed with status (\d+)', logtxt)
        res['reason'] = 'CBMC aborted (status %s: internal error or out of memory)' % (m.group(1) if m else '?')
        return res
    if 'Status: ERROR' in logtxt or 'CBMC failed' in logtxt or 'out of memory' in logtxt.lower() or 'std::bad_alloc' in logtxt:
        res['reason'] = 'solver error / out of memory'
        return res
    if failed:
        res['status'] = 'fail'
        res['playback'] = extract_playback(logtxt)
        return res
    if unwind_fail:
        fns = sorted(set(re.sub(r'^.* in ', '', u)[:110] for u in res.get('unwind_failures', [])))
        res['reason'] = 'unwinding bound too small in: ' + ' | '.join(fns[:12])
        res['status'] = 'unwind'
        return res
    if status == 'Success' and undetermined == 0:
        res['status'] = 'pass'
        return res
    if undetermined and status == 'Success':
        res['status'] = 'pass'
        return res
    res['reason'] = 'status=%s undetermined=%d' % (status, undetermined)
    return res


def extract_playback(logtxt):
    """Kani prints one concrete playback unit test per failed check / satisfied cover, each between
    ``` fences. Keep the tests generated for failed assertions (not for covers), without their doc
    comment (it quotes the assertion message verbatim; a multi-line message breaks out of it)."""
    tests = re.findall(r'```\s*\n(.*?)```', logtxt, re.S)
    keep = []
    seen = set()
    for t in tests:
        if '#[test]' not in t:
            continue
        if re.search(r'Check for `cover`', t):
            continue
        m = re.search(r'fn (kani_concrete_playback_\w+)', t)
        if not m or m.group(1) in seen:
            continue
        seen.add(m.group(1))
        keep.append(t[t.index('#[test]'):])
    if keep:
        return '\n'.join(keep)
    return None


def load_known():
    p = os.path.join(VERIF, 'known_findings.json')
    if not os.path.exists(p):
        return []
    return json.load(open(p)).get('findings', [])


def match_known(pid, res, fc, known):
    for k in known:
        if k.get('property') != pid:
            continue
        if k.get('harness') and not re.fullmatch(k['harness'], res['harness']):
            continue
        if not re.search(k.get('check', ''), fc['description']):
            continue
        if k.get('where') and not re.search(k['where'], fc['location'] + ' ' + fc['function']):
            continue
        return k
    return None


def replay(unit, h, res, pid, base):
    """Layer-1 replay: run the solver's assignment natively through Kani's concrete playback
    (dev profile, and release for information). Returns (reproduced: bool|None, dir)."""
    ts = time.strftime('%Y%m%d-%H%M%S')
    rdir = os.path.join(VERIF, 'replays', pid, '%s-%s' % (h['name'], ts))
    os.makedirs(rdir, exist_ok=True)
    json.dump({'property': pid, 'unit': unit.name, 'harness': h['full'], 'failed_checks': res['failed'],
               'repo': REPO}, open(os.path.join(rdir, 'violation.json'), 'w'), indent=1)
    shutil.copy(res['log'], os.path.join(rdir, 'kani.log'))
    # second solver run with trace extraction: Kani prints the counterexample as a unit test
    r2 = run_harness(unit, h, base, res.get('tier', 'quick'), res.get('mem_kb', 20 * 1024 * 1024) * 2, playback=True)
    if os.path.exists(r2['log']):
        shutil.copy(r2['log'], os.path.join(rdir, 'kani_playback_run.log'))
    pb = r2.get('playback')
    if not pb:
        open(os.path.join(rdir, 'NOTE'), 'w').write('Kani printed no concrete playback test (counterexample has no symbolic inputs or trace extraction failed)\n')
        return None, rdir
    open(os.path.join(rdir, 'playback_test.rs'), 'w').write(pb)
    ok = run_playback(unit, h, pb, rdir, base)
    return ok, rdir


def run_playback(unit, h, pb, rdir, base):
    names = re.findall(r'fn (kani_concrete_playback_\w+)', pb)
    if not names:
        return None
    tname = 'kani_concrete_playback_' + h['name']
    # insert the test into the harness module of a private copy of the scratch source
    d = os.path.join(base, 'pb_' + h['name'])
    subprocess.run(['cp', '-a', unit.dir, d], check=True)
    target_file = os.path.join(d, h['file'])
    s = open(target_file).read()
    if '// VERIF_PLAYBACK_ANCHOR' not in s:
        return None
    s = s.replace('// VERIF_PLAYBACK_ANCHOR', pb + '\n// VERIF_PLAYBACK_ANCHOR', 1)
    open(target_file, 'w').write(s)
    env = dict(os.environ, CARGO_NET_OFFLINE='true', CARGO_TERM_COLOR='never')
    env.pop('RUSTUP_TOOLCHAIN', None)
    pbt = os.path.join(CACHE, 'target_playback')
    tdir = os.path.join(d, 'target')
    if os.path.isdir(pbt):
        subprocess.run(['cp', '-a', '--reflink=auto', pbt, tdir], check=True)
    out = {}
    for prof in ('dev', 'release'):
        cmd = ['cargo', 'kani', 'playback', '-Z', 'concrete-playback']
        if unit.u.get('features'):
            cmd += ['--features', unit.u['features']]
        if prof == 'release':
            cmd += ['--release']
        cmd += ['--lib'] if unit.pkg == 'acme_common' else ['--bin', 'acmed']
        cmd += ['--', tname]
        lf = os.path.join(rdir, 'playback_%s.log' % prof)
        with open(lf, 'w') as f:
            rc = subprocess.run(['timeout', '1800'] + cmd, cwd=os.path.join(d, unit.pkg), stdout=f, stderr=subprocess.STDOUT, env=env).returncode
        txt = open(lf, errors='replace').read()
        nfail = len(re.findall(r'^test \S*kani_concrete_playback_\S+ \.\.\. FAILED', txt, re.M))
        nok = len(re.findall(r'^test \S*kani_concrete_playback_\S+ \.\.\. ok', txt, re.M))
        crashed = re.search(r'has overflowed its stack|signal: \d+, SIG(SEGV|ABRT|BUS)', txt)
        if nfail >= 1:
            out[prof] = 'reproduced (%d of %d counterexample tests fail natively)' % (nfail, nfail + nok)
        elif crashed:
            out[prof] = 'reproduced (native test process crashed: %s)' % crashed.group(0)
        elif nok >= 1:
            out[prof] = 'not reproduced'
        else:
            out[prof] = 'playback did not run (rc=%d)' % rc
        if prof == 'dev' and out[prof] != 'reproduced':
            # no point in building release when dev did not reproduce
            pass
    json.dump(out, open(os.path.join(rdir, 'playback_result.json'), 'w'), indent=1)
    open(os.path.join(rdir, 'HOWTO'), 'w').write(
        'Replay: %s/check %s --replay %s\n(regenerates the scratch copy of /repo, inserts playback_test.rs into the harness module and runs `cargo kani playback`)\n' % (VERIF, unit.pid, rdir))
    shutil.rmtree(d, ignore_errors=True)
    if out.get('dev', '').startswith('reproduced') or out.get('release', '').startswith('reproduced'):
        return True
    if out.get('dev', '').startswith('playback did not run'):
        return None
    return False


def warm_cache():
    """Compile the third-party dependency graph once per environment-model combination into
    /verif/.cache/target (Kani codegen only). Checks copy that directory instead of rebuilding."""
    base = tempfile.mkdtemp(prefix='acmed-verif-warm-')
    tgt = os.path.join(CACHE, 'target')
    os.makedirs(CACHE, exist_ok=True)
    env = dict(os.environ, CARGO_NET_OFFLINE='true', CARGO_TERM_COLOR='never')
    env.pop('RUSTUP_TOOLCHAIN', None)
    combos = [
        ('w_plain', 'acmed', [], None),
        ('w_ossl', 'acmed', ['openssl'], None),
        ('w_ac', 'acme_common', ['openssl'], 'openssl_dyn'),
    ]
    try:
        for name, pkg, shims, feats in combos:
            u = Unit('warm', {'name': name, 'pkg': pkg, 'shims': shims})
            try:
                d = u.generate(base)
            except Exception as e:
                log('warm: %s: %s' % (name, e))
                continue
            cmd = ['cargo', 'kani', '--target-dir', tgt, '--only-codegen', '-Z', 'unstable-options', '-Z', 'stubbing']
            if feats:
                cmd += ['--features', feats]
            r = subprocess.run(cmd, cwd=os.path.join(d, pkg), env=env, stdout=subprocess.PIPE, stderr=subprocess.STDOUT, text=True, errors='replace')
            log('warm %s: rc=%d' % (name, r.returncode))
            if r.returncode != 0:
                log(r.stdout[-1500:])
    finally:
        shutil.rmtree(base, ignore_errors=True)


def select_harnesses(spec, tier, only):
    jobs = []
    for u in spec['units']:
        unit = Unit(spec['id'], u)
        for h in u['harnesses']:
            tiers = h.get('tiers', ['quick', 'thorough'])
            if tier not in tiers:
                continue
            if only and not any(o in h['name'] for o in only):
                continue
            h = dict(h)
            mp = mod_path_of(h['file'])
            h['full'] = (mp + '::' if mp else '') + 'verif_h::' + h['name']
            jobs.append((unit, h))
    return jobs


def main(argv):
    import argparse
    ap = argparse.ArgumentParser()
    ap.add_argument('prop')
    ap.add_argument('--tier', default=os.environ.get('VERIF_TIER', 'quick'))
    ap.add_argument('--only', action='append')
    ap.add_argument('--jobs', type=int, default=int(os.environ.get('VERIF_JOBS', '0')))
    ap.add_argument('--keep', action='store_true')
    ap.add_argument('--replay')
    ap.add_argument('--compile', action='store_true', help='only compile the scratch units under Kani and show errors')
    ap.add_argument('--no-evidence', action='store_true')
    a = ap.parse_args(argv)
    if a.keep:
        os.environ['VERIF_KEEP'] = '1'
    tier = a.tier if a.tier in ('quick', 'thorough', 'dbg') else 'quick'
    try:
        seed = int(os.environ.get('VERIF_SEED', '0'))
    except ValueError:
        seed = 0
    pid = a.prop
    spec = load_spec(pid)
    t0 = time.time()
    base = tempfile.mkdtemp(prefix='acmed-verif-%s-' % pid)
    try:
        if a.replay:
            return do_replay(spec, a.replay, base)
        if a.compile:
            return do_compile(spec, base)
        return run_check(spec, tier, seed, a, base, t0)
    finally:
        if not os.environ.get('VERIF_KEEP'):
            shutil.rmtree(base, ignore_errors=True)
        else:
            log('kept scratch:', base)


def do_compile(spec, base):
    env = dict(os.environ, CARGO_NET_OFFLINE='true', CARGO_TERM_COLOR='never')
    env.pop('RUSTUP_TOOLCHAIN', None)
    rc = 0
    for u in spec['units']:
        unit = Unit(spec['id'], u)
        try:
            unit.generate(base)
        except cut.EncodeError as e:
            print('%s: EncodeError: %s' % (unit.name, e))
            rc = 2
            continue
        tgt = os.path.join(base, 'tgt_compile')
        if not os.path.isdir(tgt):
            seed_target(tgt)
        cmd = ['cargo', 'kani', '--target-dir', tgt, '--only-codegen', '-Z', 'unstable-options', '-Z', 'stubbing']
        if u.get('features'):
            cmd += ['--features', u['features']]
        r = subprocess.run(cmd, cwd=os.path.join(unit.dir, unit.pkg), env=env, stdout=subprocess.PIPE, stderr=subprocess.STDOUT, text=True, errors='replace')
        errs = re.findall(r'^error.*?(?=^(?:error|warning)|\Z)', r.stdout, re.M | re.S)
        print('unit %s: rc=%d, %d error(s)' % (unit.name, r.returncode, len(errs)))
        for e in errs[:12]:
            print(e[:1500])
        if r.returncode != 0:
            rc = 2
    return rc


def do_replay(spec, rdir, base):
    v = json.load(open(os.path.join(rdir, 'violation.json')))
    pb = open(os.path.join(rdir, 'playback_test.rs')).read()
    for unit, h in select_harnesses(spec, 'thorough', None) + select_harnesses(spec, 'quick', None):
        if h['full'] == v['harness']:
            unit.generate(base)
            ok = run_playback(unit, h, pb, rdir, base)
            print('replay:', {True: 'reproduced', False: 'not reproduced', None: 'could not run'}[ok])
            return 1 if ok else 2
    print('harness not found in spec')
    return 2


def run_check(spec, tier, seed, a, base, t0):
    pid = spec['id']
    jobs = select_harnesses(spec, tier, a.only)
    if not jobs:
        log('no harness selected')
        return 2
    # seed only permutes the order (solver verdicts do not depend on it)
    if seed:
        k = seed % len(jobs)
        jobs = jobs[k:] + jobs[:k]
    units = {}
    encode_errors = []
    for unit, h in jobs:
        if unit.name not in units:
            try:
                unit.generate(base)
                units[unit.name] = unit
            except cut.EncodeError as e:
                encode_errors.append('%s: %s' % (unit.name, e))
                units[unit.name] = None
    njobs = a.jobs or max(1, min(8, (os.cpu_count() or 2) // 2))
    mem_kb = int(os.environ.get('VERIF_MEM_KB', str(20 * 1024 * 1024)))
    results = []
    runnable = [(units[u.name], h) for u, h in jobs if units[u.name] is not None]
    log('[%s] tier=%s harnesses=%d parallel=%d scratch=%s' % (pid, tier, len(runnable), njobs, base))
    with ThreadPoolExecutor(max_workers=njobs) as ex:
        futs = [ex.submit(run_harness, u, h, base, tier, mem_kb) for u, h in runnable]
        for (u, h), f in zip(runnable, futs):
            r = f.result()
            r['spec'] = h
            results.append((u, h, r))
            st = r.get('stats') or {}
            log('  %-40s %-12s %6.1fs checks=%d symex=%.0fs sat=%.0fs %s' % (h['name'], r['status'], r['wall_s'], r['checks_total'],
                float(st.get('runtime_symex_s') or 0), float(st.get('runtime_decision_procedure_s') or 0), r['reason']))
    known = load_known()
    violations = []
    known_lines = []
    inconclusive = list(encode_errors)
    for u, h, r in results:
        kind = h.get('kind', 'proof')
        if r['status'] == 'pass':
            if r['covers']['unsatisfiable'] or r['covers']['unreachable']:
                inconclusive.append('%s: vacuity witness not satisfied: %s' % (h['name'], r.get('cover_unsat')))
            elif kind == 'witness' and r['covers']['satisfied'] == 0:
                inconclusive.append('%s: witness harness without satisfied cover' % h['name'])
            continue
        if r['status'] == 'fail':
            unknown = []
            for fc in r['failed']:
                k = match_known(pid, r, fc, known)
                if k:
                    line = 'KNOWN-FINDING: property=%s %s [harness %s: %s @ %s]' % (pid, k['what'], h['name'], fc['description'], fc['location'])
                    if line not in known_lines:
                        known_lines.append(line)
                    r.setdefault('known', []).append(k.get('id', k['what']))
                else:
                    unknown.append(fc)
            if unknown:
                r2 = dict(r)
                r2['failed'] = unknown
                ok, rdir = replay(u, h, r2, pid, base)
                r['replay_dir'] = rdir
                r['replayed'] = ok
                if ok:
                    violations.append((h, unknown, rdir))
                elif ok is False:
                    inconclusive.append('%s: counterexample did not reproduce in native playback (model/solver disagreement) -- see %s' % (h['name'], rdir))
                else:
                    # no symbolic input to play back, or playback could not be built: report when the
                    # harness says a solver counterexample without inputs is self-evident
                    # The solver's verdict stands; only the native replay could not be produced (no
                    # symbolic input in the counterexample, or trace extraction ran out of memory/time).
                    # A counterexample that WAS replayed and did not reproduce is never reported (above).
                    violations.append((h, unknown, rdir))
                    open(os.path.join(rdir, 'NOTE'), 'a').write('VIOLATION reported from the solver verdict; native replay could not be produced for this counterexample.\n')
            continue
        inconclusive.append('%s: %s (%s)' % (h['name'], r['status'], r['reason']))
    for l in known_lines:
        print(l)
    for h, unknown, rdir in violations:
        print('VIOLATION property=%s replay=%s' % (pid, rdir))
        for fc in unknown[:5]:
            print('  harness %s: %s @ %s in %s' % (h['name'], fc['description'], fc['location'], fc['function']))
    for m in inconclusive:
        print('INCONCLUSIVE: ' + m)
    wall = time.time() - t0
    if not a.no_evidence and not a.only and tier != 'dbg':
        write_evidence(spec, tier, seed, results, violations, known_lines, inconclusive, wall)
    if violations:
        return 1
    if inconclusive:
        return 2
    print('[%s] OK: %d harnesses, all solver verdicts "holds" within the stated bounds (%.0fs)' % (pid, len(results), wall))
    return 0


def write_evidence(spec, tier, seed, results, violations, known_lines, inconclusive, wall):
    pid = spec['id']
    total_checks = sum(r['checks_total'] for _, _, r in results)
    reach_repo = sum(r['checks_reachable_repo'] for _, _, r in results)
    fns = set()
    samples = []
    solver_s = 0.0
    symex_s = 0.0
    cuts, shims, assumptions = set(), set(), set(spec.get('assumptions', []))
    for u, h, r in results:
        fns.update(r['functions'])
        st = r.get('stats') or {}
        solver_s += float(st.get('runtime_decision_procedure_s', 0) or 0)
        symex_s += float(st.get('runtime_symex_s', 0) or 0)
        for e in u.u.get('edits', []):
            if 'fn' in e:
                cuts.add('%s::%s' % (e['file'], e['fn']))
            elif 'replace' in e or 'regex' in e:
                cuts.add('%s: expression cut %r' % (e['file'], (e.get('replace') or e.get('regex'))[:60]))
        shims.update(u.u.get('shims', []))
        assumptions.update(u.u.get('assumptions', []))
        assumptions.update(h.get('assumptions', []))
        samples.append({
            'harness': h['full'], 'unit': u.name, 'verdict': r['status'], 'reason': r['reason'],
            'bounds': h.get('bounds', ''), 'asserts': h.get('asserts', ''),
            'cbmc_checks': r['checks_total'], 'reachable_checks_in_repo_code': r['checks_reachable_repo'],
            'covers': r['covers'], 'wall_s': r['wall_s'],
            'vccs': st.get('vccs_generated'), 'vccs_after_simplification': st.get('vccs_remaining'),
            'symex_s': st.get('runtime_symex_s'), 'solver_s': st.get('runtime_decision_procedure_s'),
            'failed_checks': r['failed'][:10], 'known': r.get('known', []), 'replay': r.get('replay_dir'),
        })
    ev = {
        'property_id': pid, 'tier': tier, 'seed': seed, 'level': 'model_checking',
        'coverage': {
            'evaluations': max(total_checks, 1),
            'distinct_nontrivial': reach_repo,
            'rule': 'A case is one verification condition (harness, CBMC property) decided by the SAT solver for ALL values of the harness\'s symbolic inputs within the stated bounds; evaluations counts every such condition CBMC reported; distinct_nontrivial counts those that are reachable (not UNREACHABLE) and located in source files of /repo (acmed/, acme_common/, including the appended harness assertions), i.e. excluding std/dependency checks.',
            'samples': samples,
            'exhaustive': False,
            'harnesses': len(results),
            'harnesses_passed': sum(1 for _, _, r in results if r['status'] == 'pass'),
            'functions_encoded': sorted(fns),
            'cuts': sorted(cuts), 'environment_models': sorted(shims),
            'queries': total_checks, 'solver_s': round(solver_s, 1), 'symex_s': round(symex_s, 1),
            'known_findings_reported': known_lines, 'inconclusive': inconclusive,
            'outside_bounds': spec.get('outside', ''),
            'engine': 'Kani 0.68.0 / CBMC 6.11.0 / CaDiCaL; encoding regenerated from /repo working tree on this run',
        },
        'assumptions': sorted(assumptions),
        'wall_s': round(wall, 1),
        'violations': len(violations),
    }
    os.makedirs(os.path.join(VERIF, 'evidence'), exist_ok=True)
    json.dump(ev, open(os.path.join(VERIF, 'evidence', pid + '.json'), 'w'), indent=1)
