"""Source-to-source edits applied to the *scratch copy* of /repo (never to /repo itself).

Edit kinds (all fail closed with EncodeError -> exit 2 "cannot encode" when the anchor is not
found exactly the expected number of times):

  {"file": F, "fn": NAME, "body": TEXT}          function-level cut: rename `fn NAME` to
                                                  `NAME__real`, insert a `fn NAME` with the textually
                                                  copied signature and the given body next to it
  {"file": F, "replace": OLD, "with": NEW, "count": n}   expression-level cut
  {"file": F, "append": TEXT}                    append text (harness modules)
  {"file": F, "strip_fn": NAME}                  delete a function (used after cuts to remove
                                                  unreachable async-process code that ICEs Kani)
  {"file": F, "slice": {...}}                    source slice extraction (see slice_between)
  {"file": F, "deasync": true}                   async fn -> fn, drop .await (single-task de-sugaring)
"""
import re


class EncodeError(Exception):
    pass


_FN_HEAD = r'(^[ \t]*(?:pub(?:\([a-z]+\))? )?(?:async )?fn )'
_FN_SIG = r'(\b(?:<[^{;]*?>)?\s*\((?:[^{;]|\{\})*?\)(?:\s*->\s*[^{;]+?)?(?:\s*where[^{;]+?)?\s*)\{'


def _match_brace(s, i):
    """s[i-1] == '{' ; return index just after the matching '}' (ignores braces in strings/chars
    only heuristically: acmed sources have no unbalanced braces inside literals on cut paths;
    a mismatch shows up as a compile error -> exit 2)."""
    depth = 1
    j = i
    n = len(s)
    in_str = False
    while depth:
        if j >= n:
            raise EncodeError("unbalanced braces")
        c = s[j]
        if in_str:
            if c == '\\':
                j += 1
            elif c == '"':
                in_str = False
        else:
            if c == '"':
                in_str = True
            elif c == '/' and s[j:j + 2] == '//':
                k = s.find('\n', j)
                j = (k if k >= 0 else n) - 1
            elif c == '{':
                depth += 1
            elif c == '}':
                depth -= 1
        j += 1
    return j


def cut_fn(src, name, body, nth=None):
    pat = re.compile(_FN_HEAD + re.escape(name) + _FN_SIG, re.M | re.S)
    ms = list(pat.finditer(src))
    if nth is not None:
        if len(ms) <= nth:
            raise EncodeError(f"cut: fn {name}: wanted match #{nth}, found {len(ms)}")
        ms = [ms[nth]]
    if len(ms) != 1:
        raise EncodeError(f"cut: fn {name}: expected exactly 1 match, got {len(ms)}")
    m = ms[0]
    head, sig = m.group(1), m.group(2)
    indent = re.match(r'[ \t]*', head).group(0)
    new = src[:m.start()] + head + name + '__real' + sig + '{' + src[m.end():]
    i = m.end() + len('__real')
    j = _match_brace(new, i)
    stub = ('\n' + indent + '#[allow(unused_variables, unused_mut, dead_code)]\n' + head + name + sig
            + '{\n' + body + '\n' + indent + '}\n')
    # keep the real one compiled but allow it to be unused
    new = new[:m.start()] + indent + '#[allow(dead_code)]\n' + new[m.start():j] + stub + new[j:]
    return new


def strip_fn(src, name):
    m = re.search(r'^[ \t]*(?:#\[[^\]]*\]\s*)*(?:pub(?:\([a-z]+\))? )?(?:async )?fn ' + re.escape(name) + r'\b', src, re.M)
    if not m:
        raise EncodeError(f"strip_fn: {name} not found")
    i = src.index('{', m.end())
    j = _match_brace(src, i + 1)
    return src[:m.start()] + src[j:]


def deasync(src):
    src = re.sub(r'\basync fn\b', 'fn', src)
    src = src.replace('.await', '')
    src = re.sub(r'\basync move \{', '{', src)
    src = re.sub(r'\basync \{', '{', src)
    return src


def slice_between(src, start_anchor, end="enclosing_block", skip_lines=1):
    """Return the source text from the line after the statement containing start_anchor to the end
    of the enclosing block (exclusive of its closing brace)."""
    k = src.count(start_anchor)
    if k != 1:
        raise EncodeError(f"slice: anchor {start_anchor!r}: expected 1 occurrence, got {k}")
    a = src.index(start_anchor)
    # end of the statement: next ';' at depth 0 relative to anchor
    depth = 0
    i = a
    while True:
        c = src[i]
        if c in '({[':
            depth += 1
        elif c in ')}]':
            depth -= 1
        elif c == ';' and depth == 0:
            break
        i += 1
    start = i + 1
    # enclosing block end: walk forward until depth goes -1
    depth = 0
    j = start
    while True:
        c = src[j]
        if c == '{':
            depth += 1
        elif c == '}':
            depth -= 1
            if depth < 0:
                break
        j += 1
    return src[start:j]


def apply_edit(src, e, read_aux):
    if 'fn' in e:
        return cut_fn(src, e['fn'], e['body'], e.get('nth'))
    if 'replace' in e:
        n = src.count(e['replace'])
        want = e.get('count', 1)
        if want is None:
            want = n if n >= 1 else -1
        if n != want:
            raise EncodeError(f"replace: {e['replace']!r}: expected {want} occurrence(s), got {n}")
        return src.replace(e['replace'], e['with'])
    if 'regex' in e:
        new, n = re.subn(e['regex'], e['with'], src, flags=re.M | re.S)
        want = e.get('count', 1)
        if n != want:
            raise EncodeError(f"regex: {e['regex']!r}: expected {want} match(es), got {n}")
        return new
    if 'append' in e:
        return src + '\n' + e['append'] + '\n'
    if 'append_file' in e:
        return src + '\n' + read_aux(e['append_file']) + '\n'
    if 'strip_fn' in e:
        return strip_fn(src, e['strip_fn'])
    if e.get('deasync'):
        return deasync(src)
    raise EncodeError(f"unknown edit {e}")


def call_args(src, callee):
    """Top-level argument texts of the single call `callee(...)` in src (source slice helper)."""
    k = src.count(callee + '(')
    if k != 1:
        raise EncodeError(f"slice: call {callee}(: expected 1 occurrence, got {k}")
    i = src.index(callee + '(') + len(callee) + 1
    depth = 0
    args = []
    cur = i
    j = i
    while True:
        c = src[j]
        if c in '([{':
            depth += 1
        elif c in ')]}':
            if depth == 0:
                last = src[cur:j].strip()
                if last:
                    args.append(last)
                break
            depth -= 1
        elif c == ',' and depth == 0:
            args.append(src[cur:j].strip())
            cur = j + 1
        elif c == '|' and depth == 0:
            # closure parameter list: skip to the closing '|'
            j = src.index('|', j + 1)
        j += 1
    return args
