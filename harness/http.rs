// C08 / C04 / C09 / C18: acmed::http::{post, get} against the scripted-server model of reqwest
// (env/reqwest_env). Appended to acmed/src/http.rs.
// Cuts in this unit: http::rate_limit -> counts a limiter pass (RateLimit itself: harness/endpoint.rs);
// `resp.json::<HttpApiError>()` -> structs::verif_api_error (the body's first byte selects the problem
// document; serde_json is trusted); thread::sleep -> no-op; From<reqwest::Error> text.
use crate::verif_env::{block_on, rs_stub};
use reqwest::{problem_recoverable, st as net, MAX_SENDS};

// The request "body" is the nonce it was built with: the server model records its first byte.
// (A capturing closure like the real data builders: a zero-sized fn item / closure passed as `&F`
// crashes CBMC 6.11 with "l2_rename_rvalues case `struct' not handled".)
fn builder_fn(nonce: &str, _url: &str) -> Result<String, Error> {
    Ok(nonce.to_string())
}
type BuilderPtr = for<'a, 'b> fn(&'a str, &'b str) -> Result<String, Error>;
macro_rules! mk_builder {
    ($tag:ident) => {{
        let _t: u8 = *$tag;
        // a function POINTER (8 bytes), not a zero-sized fn item or closure
        let p: BuilderPtr = builder_fn;
        p
    }};
}

fn mk_endpoint(with_nonce: bool) -> Endpoint {
    let mut e = Endpoint::new("e", "", true, &[], &[]).unwrap();
    if with_nonce {
        e.nonce = Some(String::from("z"));
    }
    e
}

/// Oracle over the recorded conversation of one `post` call.
fn check_post_conversation(first_post: usize, ok: bool, initial_nonce: u8) {
    let s = net();
    let n = s.sends;
    assert!(n >= first_post + 1 || !ok, "C08: success without any transmission");
    assert!(s.unlimited_sends == 0, "C09: an HTTP request was sent without its own pass through the rate limiter");
    let mut posts = 0;
    let mut k = first_post;
    while k < MAX_SENDS {
        if k < n {
            assert!(s.method[k] == 1, "C08: unexpected GET inside the retry loop");
            posts += 1;
            if k > first_post {
                // a re-transmission happens only after a non-2xx answer carrying a recoverable problem
                assert!(s.outcome[k - 1] == 2 && problem_recoverable(s.problem[k - 1]), "C08: request re-sent although the previous answer was not a recoverable ACME error");
                // ... with the newest nonce: the server attaches nonce 'A'+j to response j
                assert!(s.body0[k] == b'A' + (k as u8 - 1), "C04/C08: re-transmission does not use the newest nonce");
            } else {
                assert!(s.body0[k] == initial_nonce, "C04: first transmission does not use the stored / freshly fetched nonce");
            }
            // never a nonce used in an earlier transmission
            let mut j = first_post;
            while j < k {
                assert!(s.body0[j] != s.body0[k], "C04: a nonce was used in two requests");
                j += 1;
            }
        }
        k += 1;
    }
    assert!(posts <= 10, "C08: more than 10 transmissions of one request");
    if n > first_post {
        let last = n - 1;
        assert!(ok == (s.outcome[last] == 1), "C08: success reported iff the last answer was 2xx");
        if s.outcome[last] == 2 && problem_recoverable(s.problem[last]) {
            assert!(posts == 10, "C08: gave up on a recoverable error before 10 transmissions");
        }
    }
}

// stored nonce present: no nonce fetch, straight into the retry loop
#[kani::proof]
#[kani::stub(std::hash::RandomState::new, rs_stub)]
#[kani::stub(alloc::fmt::format, crate::verif_env::fmt_stub)]
#[kani::unwind(2)]
fn c08_post_retry_loop() {
    let mut e = mk_endpoint(true);
    net().nonce_on_every_post = true;
    let tagv = 0u8;
    let tag = &tagv;
    let builder = mk_builder!(tag);
    let r = block_on(post(&mut e, "", &builder, "", ""));
    check_post_conversation(0, r.is_ok(), b'z');
    core::mem::forget(r);
    core::mem::forget(e);
}

// no stored nonce: exactly one GET on newNonce first; its nonce (if the server attached one) is used
#[kani::proof]
#[kani::stub(std::hash::RandomState::new, rs_stub)]
#[kani::stub(alloc::fmt::format, crate::verif_env::fmt_stub)]
#[kani::unwind(2)]
fn c04_post_fetches_nonce_first() {
    let mut e = mk_endpoint(false);
    net().nonce_on_every_post = true;
    let tagv = 0u8;
    let tag = &tagv;
    let builder = mk_builder!(tag);
    let r = block_on(post(&mut e, "", &builder, "", ""));
    let s = net();
    assert!(s.sends >= 1 && s.method[0] == 0, "C04: without a stored nonce the first request must be the newNonce GET");
    if s.sends >= 2 {
        let want = if s.outcome[0] != 0 && s.nonce_kind[0] == 1 { b'A' } else { 0 };
        check_post_conversation(1, r.is_ok(), want);
    }
    core::mem::forget(r);
    core::mem::forget(e);
}

#[kani::proof]
#[kani::stub(std::hash::RandomState::new, rs_stub)]
#[kani::stub(alloc::fmt::format, crate::verif_env::fmt_stub)]
#[kani::unwind(2)]
fn c08_witness() {
    let mut e = mk_endpoint(true);
    let tagv = 0u8;
    let tag = &tagv;
    let builder = mk_builder!(tag);
    let r = block_on(post(&mut e, "", &builder, "", ""));
    kani::cover!(r.is_ok() && net().sends == 3, "success after two recoverable errors");
    kani::cover!(r.is_err() && net().sends == 10, "gives up after 10 transmissions");
    kani::cover!(r.is_err() && net().sends == 1, "fails at once on a non-recoverable answer");
    core::mem::forget(r);
    core::mem::forget(e);
}

// GET: passes the limiter, stores a valid nonce, rejects a malformed one, reports non-2xx as an error
#[kani::proof]
#[kani::stub(std::hash::RandomState::new, rs_stub)]
#[kani::stub(alloc::fmt::format, crate::verif_env::fmt_stub)]
#[kani::unwind(2)]
fn c09_get_limited_and_nonce_kept() {
    let mut e = mk_endpoint(false);
    let r = block_on(get(&mut e, ""));
    let s = net();
    assert!(s.sends == 1 && s.unlimited_sends == 0, "C09: GET must pass the rate limiter exactly once before it is sent");
    match s.outcome[0] {
        0 => assert!(r.is_err()),
        1 => {
            if s.nonce_kind[0] == 2 {
                assert!(r.is_err(), "C04: a malformed Replay-Nonce must be rejected");
                assert!(e.nonce.is_none(), "C04: a malformed Replay-Nonce was kept for later requests");
            } else {
                assert!(r.is_ok());
                assert!(e.nonce.is_some() == (s.nonce_kind[0] == 1), "C04: the nonce of a GET response must be kept (and none invented)");
            }
        }
        _ => assert!(r.is_err(), "C08: a non-2xx answer is never taken for success"),
    }
    core::mem::forget(r);
    core::mem::forget(e);
}
