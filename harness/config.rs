// C14 (most specific setting wins; includes merge as documented), C19 (c) and C10 (hook/group
// resolution). Appended to acmed/src/config.rs as a child module.
// The placeholder in merge_slice() is replaced by the generator with the statements read_cnf applies per
// included file, pasted verbatim from /repo (DESIGN 2.5).
use crate::verif_env::rs_stub;

fn merge_slice(config: &mut Config, mut add_cnf: Config) {
    VERIF_MERGE_SLICE
}

fn none_glob() -> GlobalOptions {
    GlobalOptions {
        accounts_directory: None,
        cert_file_group: None,
        cert_file_mode: None,
        cert_file_user: None,
        cert_file_ext: None,
        certificates_directory: None,
        env: HashMap::new(),
        file_name_format: None,
        pk_file_group: None,
        pk_file_mode: None,
        pk_file_user: None,
        pk_file_ext: None,
        random_early_renew: None,
        renew_delay: None,
        root_certificates: None,
    }
}

// value tags: main file's value has tag 1, the included file's value has tag 2
fn s_tag(t: u8) -> String {
    if t == 1 {
        String::from("m")
    } else {
        String::from("ii")
    }
}
fn is_s_tag(v: &Option<String>, t: u8) -> bool {
    match v {
        Some(s) => s.len() == t as usize,
        None => t == 0,
    }
}
fn is_u_tag(v: &Option<u32>, t: u8) -> bool {
    match v {
        Some(s) => *s == t as u32,
        None => t == 0,
    }
}
fn is_v_tag(v: &Option<Vec<String>>, t: u8) -> bool {
    match v {
        Some(s) => s.len() == 1 && s[0].len() == t as usize,
        None => t == 0,
    }
}

// One harness per global option: for every presence pattern of
// the option in the including and in the included file, after the merge the global table holds the
// included file's value if it has one, else the including file's value ("the one of the last
// included file will be used", acmed.toml(5)).
macro_rules! merge_option_harness {
    ($name:ident, $field:ident, $mk:expr, $is:ident) => {
        #[kani::proof]
        #[kani::stub(std::hash::RandomState::new, rs_stub)]
        #[kani::unwind(3)]
        fn $name() {
            let in_main: bool = kani::any();
            let in_add: bool = kani::any();
            let mut config = Config::default();
            let mut g = none_glob();
            if in_main {
                g.$field = Some($mk(1));
            }
            config.global = Some(g);
            let mut add = Config::default();
            let mut ga = none_glob();
            if in_add {
                ga.$field = Some($mk(2));
            }
            add.global = Some(ga);
            merge_slice(&mut config, add);
            let r = config.global.take().unwrap();
            let want: u8 = if in_add { 2 } else if in_main { 1 } else { 0 };
            assert!($is(&r.$field, want), concat!("C14 merge: global option ", stringify!($field), " of the later file does not win / is lost"));
            core::mem::forget(r);
            core::mem::forget(config);
        }
    };
}
fn mk_s(t: u8) -> String {
    s_tag(t)
}
fn mk_u(t: u8) -> u32 {
    t as u32
}
fn mk_v(t: u8) -> Vec<String> {
    vec![s_tag(t)]
}
merge_option_harness!(c14_merge_accounts_directory, accounts_directory, mk_s, is_s_tag);
merge_option_harness!(c14_merge_cert_file_group, cert_file_group, mk_s, is_s_tag);
merge_option_harness!(c14_merge_cert_file_mode, cert_file_mode, mk_u, is_u_tag);
merge_option_harness!(c14_merge_cert_file_user, cert_file_user, mk_s, is_s_tag);
merge_option_harness!(c14_merge_cert_file_ext, cert_file_ext, mk_s, is_s_tag);
merge_option_harness!(c14_merge_certificates_directory, certificates_directory, mk_s, is_s_tag);
merge_option_harness!(c14_merge_file_name_format, file_name_format, mk_s, is_s_tag);
merge_option_harness!(c14_merge_pk_file_group, pk_file_group, mk_s, is_s_tag);
merge_option_harness!(c14_merge_pk_file_mode, pk_file_mode, mk_u, is_u_tag);
merge_option_harness!(c14_merge_pk_file_user, pk_file_user, mk_s, is_s_tag);
merge_option_harness!(c14_merge_pk_file_ext, pk_file_ext, mk_s, is_s_tag);
merge_option_harness!(c14_merge_random_early_renew, random_early_renew, mk_s, is_s_tag);
merge_option_harness!(c14_merge_renew_delay, renew_delay, mk_s, is_s_tag);
merge_option_harness!(c14_merge_root_certificates, root_certificates, mk_v, is_v_tag);

// a main file without [global] takes the included file's table as it is
#[kani::proof]
#[kani::stub(std::hash::RandomState::new, rs_stub)]
#[kani::unwind(3)]
fn c14_merge_global_absent_in_main() {
    let mut config = Config::default();
    let mut add = Config::default();
    let has: bool = kani::any();
    if has {
        let mut ga = none_glob();
        ga.renew_delay = Some(s_tag(2));
        ga.pk_file_mode = Some(2);
        add.global = Some(ga);
    }
    merge_slice(&mut config, add);
    match config.global.take() {
        Some(r) => {
            assert!(has && is_s_tag(&r.renew_delay, 2) && is_u_tag(&r.pk_file_mode, 2));
            core::mem::forget(r);
        }
        None => assert!(!has),
    }
    core::mem::forget(config);
}

fn mk_rl(t: u8) -> RateLimit {
    RateLimit { name: s_tag(t), number: t as usize, period: String::new() }
}
fn mk_group(t: u8) -> Group {
    Group { hooks: vec![], name: s_tag(t) }
}
fn mk_ep(t: u8) -> Endpoint {
    Endpoint { file_name_format: None, name: s_tag(t), random_early_renew: None, rate_limits: vec![], renew_delay: None, root_certificates: None, tos_agreed: true, url: String::new() }
}

// sections of all files are merged: main's entries first, the included file's after, none lost.
// Lengths are fixed per harness instance (NM entries in the including file, NA in the included
// one); the entries' content is symbolic.
fn sections<const NM: usize, const NA: usize>() {
    let mut config = Config::default();
    let mut add = Config::default();
    let vm: usize = kani::any();
    let va: usize = kani::any();
    if NM == 1 {
        let mut r = mk_rl(1);
        r.number = vm;
        config.rate_limit.push(r);
        config.group.push(mk_group(1));
        config.endpoint.push(mk_ep(1));
        config.hook.push(mk_hook("m"));
    }
    if NA == 1 {
        let mut r = mk_rl(2);
        r.number = va;
        add.rate_limit.push(r);
        add.group.push(mk_group(2));
        add.endpoint.push(mk_ep(2));
        add.hook.push(mk_hook("ii"));
    }
    merge_slice(&mut config, add);
    assert!(config.rate_limit.len() == NM + NA, "C14 merge: rate-limit section lost");
    assert!(config.group.len() == NM + NA, "C14 merge: group section lost");
    assert!(config.endpoint.len() == NM + NA, "C14 merge: endpoint section lost");
    assert!(config.hook.len() == NM + NA, "C14 merge: hook section lost");
    if NM == 1 {
        assert!(config.rate_limit[0].number == vm && config.endpoint[0].name.len() == 1 && config.group[0].name.len() == 1 && config.hook[0].name.len() == 1,
            "C14 merge: entries of the including file must come first, unchanged");
    }
    if NA == 1 {
        assert!(config.rate_limit[NM].number == va && config.endpoint[NM].name.len() == 2 && config.group[NM].name.len() == 2 && config.hook[NM].name.len() == 2,
            "C14 merge: entries of the included file must follow, unchanged");
    }
    core::mem::forget(config);
}

#[kani::proof]
#[kani::stub(std::hash::RandomState::new, rs_stub)]
#[kani::unwind(4)]
fn c14_merge_sections_1_1() {
    sections::<1, 1>();
}
#[kani::proof]
#[kani::stub(std::hash::RandomState::new, rs_stub)]
#[kani::unwind(4)]
fn c14_merge_sections_0_1() {
    sections::<0, 1>();
}
#[kani::proof]
#[kani::stub(std::hash::RandomState::new, rs_stub)]
#[kani::unwind(4)]
fn c14_merge_sections_1_0() {
    sections::<1, 0>();
}

// ---- three-level settings ---------------------------------------------------------------------
// parse_duration is cut in this unit: parse_duration(s) == Ok(s.len() seconds), so that the three
// levels carry pairwise distinct, recognisable values ("c"=1, "ee"=2, "ggg"=3).
fn cert_with(rd: bool, rer: bool, fmt: bool, dir: bool) -> Certificate {
    Certificate {
        account: String::new(),
        csr_digest: None,
        directory: if dir { Some(String::from("c")) } else { None },
        endpoint: String::from("e"),
        env: HashMap::new(),
        file_name_format: if fmt { Some(String::from("c")) } else { None },
        hooks: vec![],
        identifiers: vec![],
        key_type: None,
        kp_reuse: None,
        name: None,
        random_early_renew: if rer { Some(String::from("c")) } else { None },
        renew_delay: if rd { Some(String::from("c")) } else { None },
        subject_attributes: SubjectAttributes::default(),
    }
}

fn three_level_cfg(e_rd: bool, e_rer: bool, e_fmt: bool, has_glob: bool, g_rd: bool, g_rer: bool, g_fmt: bool, g_dir: bool) -> Config {
    let mut config = Config::default();
    let mut ep = mk_ep(1);
    ep.name = String::from("e");
    if e_rd {
        ep.renew_delay = Some(String::from("ee"));
    }
    if e_rer {
        ep.random_early_renew = Some(String::from("ee"));
    }
    if e_fmt {
        ep.file_name_format = Some(String::from("ee"));
    }
    config.endpoint.push(ep);
    if has_glob {
        let mut g = none_glob();
        if g_rd {
            g.renew_delay = Some(String::from("ggg"));
        }
        if g_rer {
            g.random_early_renew = Some(String::from("ggg"));
        }
        if g_fmt {
            g.file_name_format = Some(String::from("ggg"));
        }
        if g_dir {
            g.certificates_directory = Some(String::from("ggg"));
        }
        config.global = Some(g);
    }
    config
}

// The endpoint entry is *cloned* by do_get_endpoint; a String whose presence is symbolic makes that
// clone allocate a symbolic size (CBMC ran out of memory on it), so the endpoint level is fixed per
// harness instance (E) while the certificate and global levels stay symbolic.
fn three_level_rd<const E: bool>() {
    let c: bool = kani::any();
    let hg: bool = kani::any();
    let g: bool = kani::any();
    let cert = cert_with(c, false, false, false);
    let config = three_level_cfg(E, false, false, hg, g, false, false, false);
    let r = cert.get_renew_delay(&config);
    let want = if c { 1 } else if E { 2 } else if hg && g { 3 } else { crate::DEFAULT_CERT_RENEW_DELAY };
    match &r {
        Ok(d) => assert!(d.as_secs() == want, "C14: renew_delay is not the most specific value (certificate > endpoint > global > default)"),
        Err(_) => assert!(false, "C14: renew_delay lookup failed"),
    }
    core::mem::forget(r);
    core::mem::forget(config);
    core::mem::forget(cert);
}
fn three_level_rer<const E: bool>() {
    let c: bool = kani::any();
    let hg: bool = kani::any();
    let g: bool = kani::any();
    let cert = cert_with(false, c, false, false);
    let config = three_level_cfg(false, E, false, hg, false, g, false, false);
    let r = cert.get_random_early_renew(&config);
    let want = if c { 1 } else if E { 2 } else if hg && g { 3 } else { crate::DEFAULT_CERT_RANDOM_EARLY_RENEW };
    match &r {
        Ok(d) => assert!(d.as_secs() == want, "C14: random_early_renew is not the most specific value"),
        Err(_) => assert!(false, "C14: random_early_renew lookup failed"),
    }
    core::mem::forget(r);
    core::mem::forget(config);
    core::mem::forget(cert);
}
fn three_level_fmt<const E: bool>() {
    let c: bool = kani::any();
    let hg: bool = kani::any();
    let g: bool = kani::any();
    let cert = cert_with(false, false, c, false);
    let config = three_level_cfg(false, false, E, hg, false, false, g, false);
    let r = cert.get_crt_name_format(&config);
    match &r {
        Ok(s) => {
            if c {
                assert!(s.len() == 1, "C14: file_name_format: certificate level must win");
            } else if E {
                assert!(s.len() == 2, "C14: file_name_format: endpoint level must win over global");
            } else if hg && g {
                assert!(s.len() == 3, "C14: file_name_format: global level must win over the default");
            } else {
                assert!(s.len() == crate::DEFAULT_CERT_FORMAT.len(), "C14: file_name_format: default expected");
            }
        }
        Err(_) => assert!(false, "C14: file_name_format lookup failed"),
    }
    core::mem::forget(r);
    core::mem::forget(config);
    core::mem::forget(cert);
}
macro_rules! inst2 {
    ($n0:ident, $n1:ident, $f:ident, $uw:expr) => {
        #[kani::proof]
        #[kani::stub(std::hash::RandomState::new, rs_stub)]
        #[kani::unwind($uw)]
        fn $n0() {
            $f::<false>();
        }
        #[kani::proof]
        #[kani::stub(std::hash::RandomState::new, rs_stub)]
        #[kani::unwind($uw)]
        fn $n1() {
            $f::<true>();
        }
    };
}
inst2!(c14_three_level_renew_delay_e0, c14_three_level_renew_delay_e1, three_level_rd, 2);
inst2!(c14_three_level_random_early_renew_e0, c14_three_level_random_early_renew_e1, three_level_rer, 2);
inst2!(c14_three_level_file_name_format_e0, c14_three_level_file_name_format_e1, three_level_fmt, 2);

#[kani::proof]
#[kani::stub(std::hash::RandomState::new, rs_stub)]
#[kani::unwind(5)]
fn c14_two_level_directory() {
    let c: bool = kani::any();
    let hg: bool = kani::any();
    let g: bool = kani::any();
    let cert = cert_with(false, false, false, c);
    let config = three_level_cfg(false, false, false, hg, false, false, false, g);
    let s = cert.get_crt_dir(&config);
    if c {
        assert!(s.len() == 1, "C14: directory: certificate level must win");
    } else if hg && g {
        assert!(s.len() == 3, "C14: directory: global level must win over the default");
    } else {
        assert!(s.len() == crate::DEFAULT_CERT_DIR.len(), "C14: directory: default expected");
    }
    core::mem::forget(s);
    core::mem::forget(config);
    core::mem::forget(cert);
}

// ---- unresolved references are rejected -------------------------------------------------------
// names are one-byte strings with a symbolic byte: sizes stay concrete, contents are symbolic
fn name1(b: u8) -> String {
    unsafe { String::from_utf8_unchecked(vec![b]) }
}
fn any_lower() -> u8 {
    let b: u8 = kani::any();
    kani::assume(b >= b'a' && b <= b'z');
    b
}

#[kani::proof]
#[kani::stub(std::hash::RandomState::new, rs_stub)]
#[kani::stub(alloc::fmt::format, crate::verif_env::fmt_stub)]
#[kani::unwind(2)]
fn c14_unknown_endpoint_rejected() {
    let mut config = Config::default();
    let b = any_lower();
    let mut ep = mk_ep(1);
    ep.name = name1(b);
    config.endpoint.push(ep);
    let cert = cert_with(false, false, false, false); // refers to endpoint "e"
    let r = cert.do_get_endpoint(&config);
    assert!(r.is_ok() == (b == b'e'), "C14: a certificate whose endpoint does not resolve must be rejected");
    let r2 = cert.get_renew_delay(&config);
    assert!(r2.is_ok() == (b == b'e'), "C14: settings lookup with an unknown endpoint must be rejected");
    let r3 = cert.get_crt_name_format(&config);
    assert!(r3.is_ok() == (b == b'e'));
    core::mem::forget(r);
    core::mem::forget(r2);
    core::mem::forget(r3);
    core::mem::forget(config);
    core::mem::forget(cert);
}

#[kani::proof]
#[kani::stub(std::hash::RandomState::new, rs_stub)]
#[kani::stub(alloc::fmt::format, crate::verif_env::fmt_stub)]
#[kani::unwind(5)]
fn c14_unknown_rate_limit_rejected() {
    let mut config = Config::default();
    let b = any_lower();
    let mut rl = mk_rl(1);
    rl.name = name1(b);
    config.rate_limit.push(rl);
    let r = config.get_rate_limit("r");
    assert!(r.is_ok() == (b == b'r'), "C14: an unknown rate limit name must be rejected");
    let mut ep = mk_ep(1);
    ep.rate_limits = vec![String::from("r")];
    let g = ep.to_generic(&config, &[]);
    assert!(g.is_ok() == (b == b'r'), "C14: an endpoint whose rate limit does not resolve must be rejected");
    core::mem::forget(r);
    core::mem::forget(g);
    core::mem::forget(ep);
    core::mem::forget(config);
}

// ---- hooks and groups (C10 resolution order, C14 unresolved names, C19 cycles) ----------------
fn mk_hook(name: &str) -> Hook {
    Hook { allow_failure: None, args: None, cmd: String::new(), name: String::from(name), stderr: None, stdin: None, stdin_str: None, stdout: None, hook_type: vec![] }
}
fn member() -> u8 {
    let b: u8 = kani::any();
    kani::assume(b == b'a' || b == b'b' || b == b'x');
    b
}

// Two hooks "a","b"; group "g" with two symbolic members drawn from {a, b, x (unknown)}:
// get_hook("g") is the in-order expansion, Err iff a member is unknown.
#[kani::proof]
#[kani::stub(std::hash::RandomState::new, rs_stub)]
#[kani::stub(alloc::fmt::format, crate::verif_env::fmt_stub)]
#[kani::unwind(3)]
fn c10_get_hook_expands_groups_in_order() {
    let mut config = Config::default();
    config.hook.push(mk_hook("a"));
    config.hook.push(mk_hook("b"));
    let m0 = member();
    let m1 = member();
    config.group.push(Group { name: String::from("g"), hooks: vec![name1(m0), name1(m1)] });
    let r = config.get_hook("g");
    let unknown = m0 == b'x' || m1 == b'x';
    match &r {
        Ok(v) => {
            assert!(!unknown, "C14: a group referring to an unknown hook must be rejected");
            assert!(v.len() == 2, "C10: group expansion lost or duplicated a hook");
            assert!(v[0].name.as_bytes()[0] == m0 && v[1].name.as_bytes()[0] == m1, "C10: group members are not expanded in declaration order");
        }
        Err(_) => assert!(unknown, "C10: resolvable group was rejected"),
    }
    core::mem::forget(r);
    core::mem::forget(config);
}

// Nested group expanded in place: hooks [a, b]; g = [h, a], h = [b, b]  =>  get_hook("g") = [b, b, a].
// Every vector on the path has exactly two elements so that the loop bound 3 is exact for all of
// them (an over-unwound loop reads past the vector and clones garbage: CBMC runs out of memory).
// allow_failure of each hook is symbolic (absent / true / false).
#[kani::proof]
#[kani::stub(std::hash::RandomState::new, rs_stub)]
#[kani::stub(alloc::fmt::format, crate::verif_env::fmt_stub)]
#[kani::unwind(3)]
fn c10_get_hook_nested_group_in_place() {
    let mut config = Config::default();
    let mut ha = mk_hook("a");
    let mut hb = mk_hook("b");
    let fa: u8 = kani::any();
    let fb: u8 = kani::any();
    kani::assume(fa < 3 && fb < 3);
    ha.allow_failure = if fa == 2 { None } else { Some(fa == 1) };
    hb.allow_failure = if fb == 2 { None } else { Some(fb == 1) };
    config.hook.push(ha);
    config.hook.push(hb);
    config.group.push(Group { name: String::from("g"), hooks: vec![String::from("h"), String::from("a")] });
    config.group.push(Group { name: String::from("h"), hooks: vec![String::from("b"), String::from("b")] });
    let r = config.get_hook("g");
    match &r {
        Ok(v) => {
            assert!(v.len() == 3, "C10: nested group expansion lost or duplicated a hook");
            assert!(v[0].name == "b" && v[1].name == "b" && v[2].name == "a", "C10: nested group is not expanded in place, in declaration order");
            assert!(v[2].allow_failure == (fa == 1) && v[0].allow_failure == (fb == 1), "C10: allow_failure must be the configured value, false by default");
        }
        Err(_) => assert!(false, "C10: resolvable nested group was rejected"),
    }
    core::mem::forget(r);
    core::mem::forget(config);
}

// Self-referential / cyclic groups: every membership relation over two groups "g","h" (each with
// one symbolic member drawn from {a, g, h}). get_hook must return (Ok for acyclic, Err for cyclic)
// without unbounded recursion: the recursion bound of this harness (5) exceeds the depth of any
// acyclic expansion (3), so a recursion-unwinding failure here IS the stack overflow of C19.
#[kani::proof]
#[kani::stub(std::hash::RandomState::new, rs_stub)]
#[kani::stub(alloc::fmt::format, crate::verif_env::fmt_stub)]
#[kani::unwind(5)]
fn c19_get_hook_group_cycles() {
    let mut config = Config::default();
    config.hook.push(mk_hook("a"));
    let m0: u8 = kani::any();
    let m1: u8 = kani::any();
    kani::assume((m0 == b'a' || m0 == b'g' || m0 == b'h') && (m1 == b'a' || m1 == b'g' || m1 == b'h'));
    config.group.push(Group { name: String::from("g"), hooks: vec![name1(m0)] });
    config.group.push(Group { name: String::from("h"), hooks: vec![name1(m1)] });
    let r = config.get_hook("g");
    // g -> a ; g -> h -> a are the acyclic cases
    let acyclic = m0 == b'a' || (m0 == b'h' && m1 == b'a');
    match &r {
        Ok(v) => {
            assert!(acyclic, "C19: a cyclic hook group was accepted");
            assert!(v.len() == 1 && v[0].name.as_bytes()[0] == b'a');
        }
        Err(_) => assert!(!acyclic, "C19: an acyclic hook group was rejected"),
    }
    core::mem::forget(r);
    core::mem::forget(config);
}

#[kani::proof]
#[kani::stub(std::hash::RandomState::new, rs_stub)]
#[kani::stub(alloc::fmt::format, crate::verif_env::fmt_stub)]
#[kani::unwind(2)]
fn c14_config_witness() {
    let mut config = Config::default();
    config.hook.push(mk_hook("a"));
    let k: u8 = kani::any();
    kani::assume(k == b'a' || k == b'x');
    let nm = name1(k);
    let r = config.get_hook(&nm);
    kani::cover!(r.is_ok(), "a known hook resolves");
    kani::cover!(r.is_err(), "an unknown hook is rejected");
    let cert = cert_with(kani::any(), false, false, false);
    let cfg2 = three_level_cfg(true, false, false, false, false, false, false, false);
    let d = cert.get_renew_delay(&cfg2);
    kani::cover!(matches!(&d, Ok(x) if x.as_secs() == 1), "certificate-level value used");
    kani::cover!(matches!(&d, Ok(x) if x.as_secs() == 2), "endpoint-level value used");
    core::mem::forget(r);
    core::mem::forget(d);
    core::mem::forget(config);
    core::mem::forget(cfg2);
    core::mem::forget(cert);
}

// ---- C18: trust wiring -- the root certificate list handed to the HTTP client is exactly
// command line ++ endpoint ++ global, in that order, for every presence pattern ---------------------
// One instance per presence pattern (a symbolic number of list entries makes the Vec growth allocate
// a symbolic size); file names are one-byte strings with symbolic content.
fn roots<const CLI: bool, const EP: bool, const GLOB: bool>() {
    let bc = any_lower();
    let be = any_lower();
    let bg = any_lower();
    let glob_table: bool = kani::any();
    let mut config = Config::default();
    let mut ep = mk_ep(1);
    if EP {
        ep.root_certificates = Some(vec![name1(be)]);
    }
    if GLOB {
        let mut g = none_glob();
        g.root_certificates = Some(vec![name1(bg)]);
        config.global = Some(g);
    } else if glob_table {
        config.global = Some(none_glob());
    }
    let nc = name1(bc);
    let cli: [&str; 1] = [nc.as_str()];
    let r = if CLI { ep.to_generic(&config, &cli) } else { ep.to_generic(&config, &[]) };
    match &r {
        Ok(e) => {
            let want = CLI as usize + EP as usize + GLOB as usize;
            assert!(e.root_certificates.len() == want, "C18: a configured root certificate source was dropped or an extra one added");
            let mut k = 0;
            if CLI {
                assert!(e.root_certificates[k].as_bytes()[0] == bc, "C18: --root-cert entries must come first");
                k += 1;
            }
            if EP {
                assert!(e.root_certificates[k].as_bytes()[0] == be, "C18: endpoint root_certificates must follow the command line ones");
                k += 1;
            }
            if GLOB {
                assert!(e.root_certificates[k].as_bytes()[0] == bg, "C18: global root_certificates must come last");
            }
            assert!(e.nonce.is_none(), "C18: a fresh endpoint has no nonce");
        }
        Err(_) => assert!(false, "C18: endpoint construction failed"),
    }
    core::mem::forget(r);
    core::mem::forget(ep);
    core::mem::forget(config);
    core::mem::forget(nc);
}
macro_rules! roots_inst {
    ($n:ident, $c:expr, $e:expr, $g:expr) => {
        #[kani::proof]
        #[kani::stub(std::hash::RandomState::new, rs_stub)]
        #[kani::stub(alloc::fmt::format, crate::verif_env::fmt_stub)]
        #[kani::unwind(2)]
        fn $n() {
            roots::<$c, $e, $g>();
        }
    };
}
roots_inst!(c18_roots_000, false, false, false);
roots_inst!(c18_roots_001, false, false, true);
roots_inst!(c18_roots_010, false, true, false);
roots_inst!(c18_roots_011, false, true, true);
roots_inst!(c18_roots_100, true, false, false);
roots_inst!(c18_roots_101, true, false, true);
roots_inst!(c18_roots_110, true, true, false);
roots_inst!(c18_roots_111, true, true, true);

// ---- C13: file mode / owner settings: configured value, else the documented default ------------
#[kani::proof]
#[kani::stub(std::hash::RandomState::new, rs_stub)]
#[kani::unwind(2)]
fn c13_mode_owner_getters() {
    let has_glob_table: bool = kani::any();
    let has_pk: bool = kani::any();
    let has_crt: bool = kani::any();
    let pkm: u32 = kani::any();
    let crtm: u32 = kani::any();
    let pk_user: bool = kani::any();
    let crt_group: bool = kani::any();
    let mut config = Config::default();
    if has_glob_table {
        let mut g = none_glob();
        if has_pk {
            g.pk_file_mode = Some(pkm);
        }
        if has_crt {
            g.cert_file_mode = Some(crtm);
        }
        if pk_user {
            g.pk_file_user = Some(String::from("u"));
        }
        if crt_group {
            g.cert_file_group = Some(String::from("gg"));
        }
        config.global = Some(g);
    }
    let want_pk = if has_glob_table && has_pk { pkm } else { 0o600 };
    let want_crt = if has_glob_table && has_crt { crtm } else { 0o644 };
    assert!(config.get_pk_file_mode() == want_pk, "C13: pk_file_mode must be the configured value, 0600 by default");
    assert!(config.get_cert_file_mode() == want_crt, "C13: cert_file_mode must be the configured value, 0644 by default");
    assert!(crate::DEFAULT_ACCOUNT_FILE_MODE == 0o600, "C13: account files are 0600");
    let u = config.get_pk_file_user();
    assert!(u.is_some() == (has_glob_table && pk_user), "C13: pk_file_user");
    let g = config.get_cert_file_group();
    assert!(g.is_some() == (has_glob_table && crt_group), "C13: cert_file_group");
    assert!(config.get_pk_file_group().is_none() && config.get_cert_file_user().is_none());
    core::mem::forget(u);
    core::mem::forget(g);
    core::mem::forget(config);
}
