// C07: one renewal attempt as the main loop runs it. Appended to acmed/src/main_event_loop.rs.
// Environment (cuts): Certificate::schedule_renewal -> Err or Ok(any u32 seconds);
// acme_proto::request_certificate -> Ok or Err on the solver's choice; call_post_operation_hooks ->
// records (status, is_success), fails on the solver's choice; tokio::time::sleep -> model that records
// the requested durations.
use crate::verif_env::{block_on, env, rs_stub};
use acme_common::crypto::{gen_keypair, HashFunction as HF, JwsSignatureAlgorithm as JA, KeyType as KT};
use std::time::SystemTime;

fn mk_fm() -> FileManager {
    FileManager {
        account_name: String::new(),
        account_directory: String::new(),
        crt_name: String::new(),
        crt_name_format: String::new(),
        crt_directory: String::new(),
        crt_key_type: String::new(),
        cert_file_mode: 0o644,
        cert_file_owner: None,
        cert_file_group: None,
        cert_file_ext: None,
        pk_file_mode: 0o600,
        pk_file_owner: None,
        pk_file_group: None,
        pk_file_ext: None,
        hooks: vec![],
        env: HashMap::new(),
    }
}
fn mk_cert() -> Certificate {
    Certificate {
        account_name: String::new(),
        identifiers: vec![],
        subject_attributes: HashMap::new(),
        key_type: KT::EcdsaP256,
        csr_digest: HF::Sha256,
        kp_reuse: false,
        endpoint_name: String::new(),
        hooks: vec![],
        crt_name: String::new(),
        env: HashMap::new(),
        random_early_renew: Duration::ZERO,
        renew_delay: Duration::ZERO,
        file_manager: mk_fm(),
    }
}
fn mk_syncs() -> (AccountSync, EndpointSync) {
    let account = Account {
        name: String::new(),
        endpoints: HashMap::new(),
        contacts: vec![],
        current_key: crate::account::AccountKey { creation_date: SystemTime::UNIX_EPOCH, key: gen_keypair(KT::EcdsaP256).unwrap(), signature_algorithm: JA::Es256 },
        past_keys: vec![],
        file_manager: mk_fm(),
        external_account: None,
    };
    let endpoint = Endpoint::new("e", "", true, &[], &[]).unwrap();
    (Arc::new(RwLock::new(account)), Arc::new(RwLock::new(endpoint)))
}

// One attempt: post-operation hooks run exactly once, report success iff the request succeeded, with
// status "success" or the (non-empty) error text; a failing post-operation hook does not escape; the
// scheduling back-off is used on scheduling errors (at most 2 of them inside the bound).
#[kani::proof]
#[kani::stub(std::hash::RandomState::new, rs_stub)]
#[kani::stub(alloc::fmt::format, crate::verif_env::fmt_stub)]
#[kani::unwind(2)]
fn c07_attempt_reports_once() {
    let mut cert = mk_cert();
    let (a, e) = mk_syncs();
    env().sleep_max = 3;
    let r = block_on(renew_certificate(&mut cert, a, e));
    let v = env();
    assert!(v.ml_req_calls == 1, "C07: exactly one certificate request per attempt");
    assert!(v.ml_post_calls == 1, "C07: post-operation hooks must run exactly once per attempt");
    assert!(v.ml_post_success == v.ml_req_ok, "C07: success reported iff the request succeeded");
    assert!(v.ml_post_status_is_success_word == v.ml_req_ok, "C07: status must be \"success\" only on success");
    assert!(v.ml_sched_calls >= 1 && v.sleeps == v.ml_sched_calls, "C07: one sleep per scheduling answer");
    if v.ml_sched_calls > 1 {
        assert!(v.slept_req_secs >= 60 * (v.ml_sched_calls as u64 - 1), "C07: scheduling errors must be followed by the back-off (>= 60 s each)");
    }
    core::mem::forget(r);
    core::mem::forget(cert);
}

// Two consecutive attempts as MainEventLoop::run chains them: after a FAILED request at least one
// second of sleep is requested before the next request is made, whatever schedule_renewal answers
// (it answers ZERO when no certificate exists yet).
#[kani::proof]
#[kani::stub(std::hash::RandomState::new, rs_stub)]
#[kani::stub(alloc::fmt::format, crate::verif_env::fmt_stub)]
#[kani::unwind(2)]
fn c07_no_tight_loop_after_failure() {
    let mut cert = mk_cert();
    let (a, e) = mk_syncs();
    env().sleep_max = 4;
    let (c1, a1, e1) = block_on(renew_certificate(&mut cert, a, e));
    let first_ok = env().ml_req_ok;
    let r2 = block_on(renew_certificate(c1, a1, e1));
    let v = env();
    assert!(v.ml_req_calls == 2 && v.ml_post_calls == 2, "C07: each attempt requests once and reports once");
    if !first_ok {
        assert!(v.ml_ms_at_req[1] - v.ml_ms_at_req[0] >= 1000, "C07: a failed attempt is followed by the next one without any pause (tight loop)");
    }
    core::mem::forget(r2);
}

#[kani::proof]
#[kani::stub(std::hash::RandomState::new, rs_stub)]
#[kani::stub(alloc::fmt::format, crate::verif_env::fmt_stub)]
#[kani::unwind(2)]
fn c07_witness() {
    let mut cert = mk_cert();
    let (a, e) = mk_syncs();
    env().sleep_max = 3;
    let r = block_on(renew_certificate(&mut cert, a, e));
    kani::cover!(env().ml_req_ok, "a successful attempt is reachable");
    kani::cover!(!env().ml_req_ok, "a failed attempt is reachable");
    kani::cover!(env().ml_sched_calls == 3, "two scheduling errors then an answer is reachable");
    core::mem::forget(r);
    core::mem::forget(cert);
}
