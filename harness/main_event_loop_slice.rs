// C07 (narrow): the body of main_event_loop::renew_certificate, pasted verbatim from /repo on every run and
// de-sugared to one task. The account/endpoint handles (Arc<RwLock<..>>) are opaque to this function (it only
// clones and forwards them), so the slice takes a unit type for them; `request_certificate` and `sleep` resolve
// to the local models below (a local item shadows the glob import). Needs harness/main_event_loop.rs (mk_cert).
#[derive(Clone)]
pub struct Opaque;

fn sleep(d: Duration) {
    block_on(crate::verif_env::sleep(d))
}

fn request_certificate(_c: &mut Certificate, _a: Opaque, _e: Opaque) -> Result<(), Error> {
    let e = env();
    if (e.ml_req_calls as usize) < 3 {
        e.ml_ms_at_req[e.ml_req_calls as usize] = e.slept_req_ms;
    }
    e.ml_req_calls += 1;
    let ok: bool = kani::any();
    e.ml_req_ok = ok;
    if ok { Ok(()) } else { Err("request failed".into()) }
}

fn renew_slice(certificate: &mut Certificate, account_s: Opaque, endpoint_s: Opaque) {
VERIF_RENEW_SLICE
}

#[kani::proof]
#[kani::stub(std::hash::RandomState::new, rs_stub)]
#[kani::stub(alloc::fmt::format, crate::verif_env::fmt_stub)]
#[kani::unwind(2)]
fn c07_slice_attempt_reports_once() {
    let mut cert = mk_cert();
    env().sleep_max = 3;
    renew_slice(&mut cert, Opaque, Opaque);
    let v = env();
    assert!(v.ml_req_calls == 1, "C07: exactly one certificate request per attempt");
    assert!(v.ml_post_calls == 1, "C07: post-operation hooks must run exactly once per attempt, whether the request or the hooks fail");
    assert!(v.ml_post_success == v.ml_req_ok, "C07: success reported iff the request succeeded");
    assert!(v.ml_post_status_is_success_word == v.ml_req_ok, "C07: status must be \"success\" only on success");
    assert!(v.ml_sched_calls >= 1 && v.sleeps == v.ml_sched_calls, "C07: one sleep per scheduling answer");
    if v.ml_sched_calls > 1 {
        assert!(v.slept_req_secs >= 60 * (v.ml_sched_calls as u64 - 1), "C07: a scheduling error must be followed by a back-off of at least 60 s (no tight loop)");
    }
    core::mem::forget(cert);
}

#[kani::proof]
#[kani::stub(std::hash::RandomState::new, rs_stub)]
#[kani::stub(alloc::fmt::format, crate::verif_env::fmt_stub)]
#[kani::unwind(2)]
fn c07_slice_witness() {
    let mut cert = mk_cert();
    env().sleep_max = 3;
    renew_slice(&mut cert, Opaque, Opaque);
    kani::cover!(env().ml_req_ok, "a successful attempt is reachable");
    kani::cover!(!env().ml_req_ok && env().ml_post_calls == 1, "a failed attempt is reachable and reported");
    kani::cover!(env().ml_sched_calls == 3, "two scheduling errors then an answer is reachable");
    core::mem::forget(cert);
}
