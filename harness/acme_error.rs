// C08: classification of ACME problem types. Appended to acmed/src/acme_proto/structs/error.rs.
const RECOVERABLE: [&str; 7] = [
    "urn:ietf:params:acme:error:badNonce",
    "urn:ietf:params:acme:error:connection",
    "urn:ietf:params:acme:error:dns",
    "urn:ietf:params:acme:error:malformed",
    "urn:ietf:params:acme:error:rateLimited",
    "urn:ietf:params:acme:error:serverInternal",
    "urn:ietf:params:acme:error:tls",
];

fn listed(s: &str) -> bool {
    let mut i = 0;
    let mut r = false;
    while i < RECOVERABLE.len() {
        if s == RECOVERABLE[i] {
            r = true;
        }
        i += 1;
    }
    r
}

// For EVERY ASCII string of up to 48 bytes given as the problem document's "type":
// recoverable <=> it is one of the seven URNs of the property statement.
#[kani::proof]
#[kani::unwind(50)]
fn c08_recoverable_iff_listed() {
    const N: usize = 48;
    let buf: [u8; N] = kani::any();
    let len: usize = kani::any();
    kani::assume(len <= N);
    let mut i = 0;
    while i < N {
        kani::assume(buf[i] < 0x80);
        i += 1;
    }
    let s = unsafe { core::str::from_utf8_unchecked(&buf[..len]) };
    let t = HttpApiError { error_type: Some(s.to_string()), status: None, detail: None };
    let e = t.get_acme_type();
    assert!(e.is_recoverable() == listed(s), "C08: recoverable classification differs from the seven listed types");
    core::mem::forget(t);
}

// a problem document without a type is "about:blank": not recoverable
#[kani::proof]
#[kani::unwind(50)]
fn c08_absent_type_not_recoverable() {
    let st: Option<usize> = if kani::any() { Some(kani::any()) } else { None };
    let t = HttpApiError { error_type: None, status: st, detail: None };
    assert!(!t.get_acme_type().is_recoverable(), "C08: a problem document without type is retried");
    assert!(t.get_acme_type() == AcmeError::Unknown);
    core::mem::forget(t);
}

// witness: both classes are reachable through the same entry
#[kani::proof]
#[kani::unwind(50)]
fn c08_classify_witness() {
    let k: usize = kani::any();
    kani::assume(k < 8);
    let s = if k < 7 { RECOVERABLE[k] } else { "urn:ietf:params:acme:error:unauthorized" };
    let t = HttpApiError { error_type: Some(s.to_string()), status: None, detail: None };
    let r = t.get_acme_type().is_recoverable();
    kani::cover!(r, "a recoverable type is classified recoverable");
    kani::cover!(!r, "a non-recoverable type is classified non-recoverable");
    core::mem::forget(t);
}
