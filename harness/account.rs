// C11: Account::synchronize -- which requests are made, in which order, signed by which key.
// Appended to acmed/src/account.rs. Environment: acme_proto::account::{register_account,
// update_account_contacts, update_account_key} are cut to contract models that record an event,
// check (for the record) whether the key that would sign the request is the one the CA holds, fail on
// the solver's choice and otherwise update the account's fingerprints through the real setters.
use crate::verif_env::{block_on, env, rs_stub};
use acme_common::crypto::KeyType as KT;

fn mk_fm() -> FileManager {
    FileManager {
        account_name: String::new(),
        account_directory: String::new(),
        crt_name: String::new(),
        crt_name_format: String::new(),
        crt_directory: String::new(),
        crt_key_type: String::new(),
        cert_file_mode: 0o644,
        cert_file_owner: None,
        cert_file_group: None,
        cert_file_ext: None,
        pk_file_mode: 0o600,
        pk_file_owner: None,
        pk_file_group: None,
        pk_file_ext: None,
        hooks: vec![],
        env: HashMap::new(),
    }
}

fn sync_table<const HAS_URL: bool, const HAS_EXT: bool>() {
    let cur = AccountKey { creation_date: SystemTime::UNIX_EPOCH, key: gen_keypair(KT::EcdsaP256).unwrap(), signature_algorithm: JwsSignatureAlgorithm::Es256 };
    let old = AccountKey { creation_date: SystemTime::UNIX_EPOCH, key: gen_keypair(KT::EcdsaP256).unwrap(), signature_algorithm: JwsSignatureAlgorithm::Es256 };
    let key_changed: bool = kani::any();
    let contacts_changed: bool = kani::any();
    let ext_changed: bool = kani::any();
    let ext = if HAS_EXT { Some(ExternalAccount { identifier: String::from("i"), key: vec![1], signature_algorithm: JwsSignatureAlgorithm::Hs256 }) } else { None };
    let mut ep = AccountEndpoint::new();
    if HAS_URL {
        ep.account_url = String::from("u");
    }
    // fingerprints on record: those of the current configuration, or a differing one
    ep.key_hash = hash_key(if key_changed { &old } else { &cur }).unwrap();
    ep.contacts_hash = hash_contacts(&[]);
    if contacts_changed {
        ep.contacts_hash[0] ^= 1;
    }
    if let Some(e) = &ext {
        ep.external_account_hash = hash_external_account(e);
        if ext_changed {
            ep.external_account_hash[0] ^= 1;
        }
    }
    // the CA holds the key whose fingerprint is on record
    env().ca_key_kid = if key_changed { old.key.inner_key.kid } else { cur.key.inner_key.kid };
    let mut endpoints = HashMap::new();
    endpoints.insert(String::from("e"), ep);
    let mut account = Account { name: String::from("a"), endpoints, contacts: vec![], current_key: cur, past_keys: vec![old], file_manager: mk_fm(), external_account: ext };
    let mut endpoint = Endpoint::new("e", "", true, &[], &[]).unwrap();
    env().acc_ev_n = 0;
    let r = block_on(account.synchronize(&mut endpoint));
    let e = env();
    let n = e.acc_ev_n;
    let must_register = !HAS_URL || (HAS_EXT && ext_changed);
    if must_register {
        assert!(n == 1 && e.acc_ev[0] == 1, "C11: exactly one newAccount request expected (no URL on record, or binding changed)");
    } else {
        // no registration; one update per changed item
        let mut i = 0;
        let mut n_key = 0;
        let mut n_ct = 0;
        while i < 3 {
            if i < n {
                assert!(e.acc_ev[i] != 1, "C11: account created although an account URL is on record and the binding is unchanged");
                if e.acc_ev[i] == 2 {
                    n_ct += 1;
                    assert!(e.acc_ev_key_ok[i], "C11: contacts update would be signed by a key the CA does not hold yet (key roll-over must come first)");
                }
                if e.acc_ev[i] == 3 {
                    n_key += 1;
                }
            }
            i += 1;
        }
        assert!(n_key <= 1 && n_ct <= 1, "C11: an update was sent twice");
        assert!(n_key == 0 || key_changed, "C11: key roll-over without a key change");
        assert!(n_ct == 0 || contacts_changed, "C11: contacts update without a contacts change");
        if r.is_ok() {
            assert!((n_key == 1) == key_changed && (n_ct == 1) == contacts_changed, "C11: a changed item was not brought into line although synchronize reported success");
        }
    }
    if r.is_ok() && !must_register {
        // after success the fingerprints on record equal those of the configuration
        let ep = account.get_endpoint("e").unwrap();
        assert!(ep.key_hash == hash_key(&account.current_key).unwrap(), "C11: key fingerprint not updated after success");
        assert!(ep.contacts_hash == hash_contacts(&account.contacts), "C11: contacts fingerprint not updated after success");
    }
    assert!(r.is_ok() == !e.acc_failed, "C11: synchronize must fail iff a request failed");
    core::mem::forget(r);
    core::mem::forget(account);
    core::mem::forget(endpoint);
}

macro_rules! sync_inst {
    ($n:ident, $u:expr, $x:expr) => {
        #[kani::proof]
        #[kani::stub(std::hash::RandomState::new, rs_stub)]
        #[kani::stub(alloc::fmt::format, crate::verif_env::fmt_stub)]
        #[kani::unwind(2)]
        fn $n() {
            sync_table::<$u, $x>();
        }
    };
}
sync_inst!(c11_sync_no_url, false, false);
sync_inst!(c11_sync_url_no_binding, true, false);
sync_inst!(c11_sync_url_binding, true, true);

#[kani::proof]
#[kani::stub(std::hash::RandomState::new, rs_stub)]
#[kani::stub(alloc::fmt::format, crate::verif_env::fmt_stub)]
#[kani::unwind(2)]
fn dbg_c11_a() {
    let cur = AccountKey { creation_date: SystemTime::UNIX_EPOCH, key: gen_keypair(KT::EcdsaP256).unwrap(), signature_algorithm: JwsSignatureAlgorithm::Es256 };
    let mut ep = AccountEndpoint::new();
    ep.key_hash = hash_key(&cur).unwrap();
    let mut endpoints = HashMap::new();
    endpoints.insert(String::from("e"), ep);
    let account = Account { name: String::from("a"), endpoints, contacts: vec![], current_key: cur, past_keys: vec![], file_manager: mk_fm(), external_account: None };
    let r = account.get_endpoint("e");
    assert!(r.is_ok());
    core::mem::forget(account);
}

#[kani::proof]
#[kani::stub(std::hash::RandomState::new, rs_stub)]
#[kani::stub(alloc::fmt::format, crate::verif_env::fmt_stub)]
#[kani::unwind(2)]
fn dbg_c11_b() {
    let cur = AccountKey { creation_date: SystemTime::UNIX_EPOCH, key: gen_keypair(KT::EcdsaP256).unwrap(), signature_algorithm: JwsSignatureAlgorithm::Es256 };
    let mut ep = AccountEndpoint::new();
    ep.account_url = String::from("u");
    ep.key_hash = hash_key(&cur).unwrap();
    ep.contacts_hash = hash_contacts(&[]);
    let mut endpoints = HashMap::new();
    endpoints.insert(String::from("e"), ep);
    let mut account = Account { name: String::from("a"), endpoints, contacts: vec![], current_key: cur, past_keys: vec![], file_manager: mk_fm(), external_account: None };
    let mut endpoint = Endpoint::new("e", "", true, &[], &[]).unwrap();
    env().acc_ev_n = 0;
    let r = block_on(account.synchronize(&mut endpoint));
    assert!(env().acc_ev_n == 0);
    core::mem::forget(r);
    core::mem::forget(account);
    core::mem::forget(endpoint);
}
