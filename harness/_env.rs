// Shared harness prelude, pasted into the crate root of the scratch copy as `crate::verif_env`.
// Nothing here models acmed; it is glue for harnesses: a one-poll executor, a symbolic clock,
// small symbolic-string builders and stubs for formatting.
use core::future::Future;
use core::task::{Context, Poll, RawWaker, RawWakerVTable, Waker};
use std::time::{Duration, Instant};

fn noop_raw() -> RawWaker {
    fn no(_: *const ()) {}
    fn cl(_: *const ()) -> RawWaker {
        noop_raw()
    }
    static VT: RawWakerVTable = RawWakerVTable::new(cl, no, no, no);
    RawWaker::new(core::ptr::null(), &VT)
}

/// Single-task executor: every leaf future of the environment models is ready at once, so a
/// future that pends has nothing to wake it (a self-deadlock) -- asserted against.
pub fn block_on<F: Future>(f: F) -> F::Output {
    let waker = unsafe { Waker::from_raw(noop_raw()) };
    let mut cx = Context::from_waker(&waker);
    let mut f = core::pin::pin!(f);
    let mut polls = 0u32;
    loop {
        if let Poll::Ready(v) = f.as_mut().poll(&mut cx) {
            return v;
        }
        polls += 1;
        assert!(polls < 2, "future pended with nothing to wake it");
    }
}

// ---- model state ------------------------------------------------------------------------------
// ALL mutable model state lives in ONE static struct with a unique bit pattern. Kani 0.68 was
// observed (replay of a spurious C09 counterexample) to give `pub static mut X: u32 = 0` the same
// memory as the immutable constant `Nanoseconds::ZERO` of core::time -- `X += 1` then made every
// later `Duration::from_secs(n)` carry one nanosecond. A struct with a magic field cannot be
// merged with any constant of the program.
pub struct EnvState {
    pub magic: u64,
    /// symbolic clock, whole seconds
    pub now: u64,
    pub now_max_step: u8,
    pub sleeps: u32,
    pub sleep_max: u32,
    /// when set, exceeding sleep_max is an assertion failure ("the call does not return") instead of a cut path
    pub sleep_strict: bool,
    /// sum of the whole seconds *requested* by the code under analysis (saturating)
    pub slept_req_secs: u64,
    /// sum of the milliseconds requested (saturating)
    pub slept_req_ms: u64,
    // ---- storage model used by cuts of storage::{certificate_files_exists, get_certificate}
    pub files_exist: bool,
    pub cert_file: [u8; 24],
    pub cert_file_len: usize,
    pub cert_unreadable: bool,
    // ---- account request models (cuts of acme_proto::account::*)
    pub ca_key_kid: u32,
    pub acc_ev: [u8; 4],
    pub acc_ev_key_ok: [bool; 4],
    pub acc_ev_n: usize,
    pub acc_failed: bool,
    // ---- file model (harness/_env.rs::fsmodel replaces tokio::fs in storage.rs) and hook event log
    pub fs_exists: bool,
    /// per file type (0 account, 1 private key, 2 certificate): does the file exist (used by the cut of get_file_path + is_file in check_files)
    pub fs_type_exists: [bool; 3],
    pub fs_path_error: [bool; 3],
    pub fs_len: usize,
    pub fs_data: [u8; 4],
    pub fs_create_mode: u32,
    pub fs_created: bool,
    pub fs_opens: u32,
    pub fs_open_write: bool,
    pub hook_ev: [u8; 6],
    pub hook_ev_n: usize,
    pub hook_failed: bool,
    // ---- main loop models (cuts of schedule_renewal / request_certificate / call_post_operation_hooks)
    pub ml_sched_calls: u32,
    pub ml_req_calls: u32,
    pub ml_post_calls: u32,
    pub ml_req_ok: bool,
    pub ml_post_success: bool,
    pub ml_post_status_is_success_word: bool,
    pub ml_post_status_len: usize,
    pub ml_ms_at_req: [u64; 3],
}
pub static mut ENV: EnvState = EnvState {
    magic: 0x5EED_C0DE_ACED_0001,
    now: 0,
    now_max_step: 2,
    sleeps: 0,
    sleep_max: 2,
    sleep_strict: false,
    slept_req_secs: 0,
    slept_req_ms: 0,
    files_exist: false,
    cert_file: [0; 24],
    cert_file_len: 0,
    cert_unreadable: false,
    ca_key_kid: 0,
    acc_ev: [0; 4],
    acc_ev_key_ok: [false; 4],
    acc_ev_n: 0,
    acc_failed: false,
    fs_exists: false,
    fs_type_exists: [false; 3],
    fs_path_error: [false; 3],
    fs_len: 0,
    fs_data: [0; 4],
    fs_create_mode: 0,
    fs_created: false,
    fs_opens: 0,
    fs_open_write: false,
    hook_ev: [0; 6],
    hook_ev_n: 0,
    hook_failed: false,
    ml_sched_calls: 0,
    ml_req_calls: 0,
    ml_post_calls: 0,
    ml_req_ok: false,
    ml_post_success: false,
    ml_post_status_is_success_word: false,
    ml_post_status_len: 0,
    ml_ms_at_req: [0; 3],
};
pub fn env() -> &'static mut EnvState {
    unsafe { &mut *core::ptr::addr_of_mut!(ENV) }
}

pub fn inst(s: u64) -> Instant {
    let base: Instant = unsafe { core::mem::zeroed() };
    base + Duration::from_secs(1_000_000 + s)
}

/// stub for std::time::Instant::now: non-decreasing symbolic seconds
pub fn now_stub() -> Instant {
    let e = env();
    let extra: u8 = kani::any();
    kani::assume(extra <= e.now_max_step);
    e.now += extra as u64;
    inst(e.now)
}

// ---- stubs ---------------------------------------------------------------------------------
/// stub for alloc::fmt::format where message text is not the subject of the harness
pub fn fmt_stub(_a: core::fmt::Arguments<'_>) -> String {
    String::new()
}

pub fn rs_stub() -> std::hash::RandomState {
    unsafe { core::mem::transmute::<(u64, u64), std::hash::RandomState>((0, 0)) }
}

// ---- symbolic small strings ----------------------------------------------------------------
/// A string of exactly `n` bytes drawn from `alphabet` (symbolic choice per byte).
pub fn any_str_from(alphabet: &[u8], n: usize) -> String {
    let mut v: Vec<u8> = Vec::with_capacity(n);
    let mut i = 0;
    while i < n {
        let k: usize = kani::any();
        kani::assume(k < alphabet.len());
        v.push(alphabet[k]);
        i += 1;
    }
    unsafe { String::from_utf8_unchecked(v) }
}

// ---- sleep model (replaces tokio::time::sleep by an expression-level cut of the `use` line) ----
/// A sleep lasts any whole number of seconds >= 0 (over-approximation of "at least d");
/// at most sleep_max sleeps per harness run (paths with more are outside the bound).
pub async fn sleep(d: Duration) {
    let e = env();
    e.sleeps += 1;
    if e.sleep_strict {
        assert!(e.sleeps <= e.sleep_max, "the call keeps sleeping: it does not return within the bound");
    }
    kani::assume(e.sleeps <= e.sleep_max);
    e.slept_req_secs = e.slept_req_secs.saturating_add(d.as_secs());
    e.slept_req_ms = e.slept_req_ms.saturating_add(d.as_millis() as u64);
    let extra: u8 = kani::any();
    e.now += extra as u64;
}

// ---- POSIX-like single-file model standing in for tokio::fs in storage.rs -------------------------
// A file is (exists, length, up to 4 bytes, mode given at creation). open(write, create[, truncate])
// creates the file when absent (recording the mode argument), truncates only when asked to;
// write_all writes at the current position (0 after open, end of file with append) and extends the
// length only when it writes past it: content beyond what is written is KEPT, as on a real file system.
pub mod fsmodel {
    use super::env;
    use std::io;
    use std::path::Path;
    pub const CAP: usize = 4;
    pub struct OpenOptions {
        write: bool,
        create: bool,
        truncate: bool,
        append: bool,
        mode: u32,
    }
    impl OpenOptions {
        pub fn new() -> Self {
            OpenOptions { write: false, create: false, truncate: false, append: false, mode: 0o666 }
        }
        pub fn write(&mut self, v: bool) -> &mut Self {
            self.write = v;
            self
        }
        pub fn create(&mut self, v: bool) -> &mut Self {
            self.create = v;
            self
        }
        pub fn truncate(&mut self, v: bool) -> &mut Self {
            self.truncate = v;
            self
        }
        pub fn append(&mut self, v: bool) -> &mut Self {
            self.append = v;
            self
        }
        pub fn mode(&mut self, m: u32) -> &mut Self {
            self.mode = m;
            self
        }
        pub async fn open(&self, _path: impl AsRef<Path>) -> io::Result<File> {
            let e = env();
            e.fs_opens += 1;
            e.fs_open_write = self.write;
            if !e.fs_exists {
                if !self.create {
                    return Err(io::Error::from(io::ErrorKind::NotFound));
                }
                e.fs_exists = true;
                e.fs_len = 0;
                e.fs_create_mode = self.mode;
                e.fs_created = true;
            } else if self.truncate && self.write {
                e.fs_len = 0;
            }
            Ok(File { pos: if self.append { e.fs_len } else { 0 }, writable: self.write })
        }
    }
    pub struct File {
        pos: usize,
        writable: bool,
    }
    impl File {
        pub async fn open(_path: impl AsRef<Path>) -> io::Result<File> {
            if env().fs_exists {
                Ok(File { pos: 0, writable: false })
            } else {
                Err(io::Error::from(io::ErrorKind::NotFound))
            }
        }
        pub async fn create(_path: impl AsRef<Path>) -> io::Result<File> {
            let e = env();
            if !e.fs_exists {
                e.fs_created = true;
                e.fs_create_mode = 0o666;
            }
            e.fs_exists = true;
            e.fs_len = 0;
            Ok(File { pos: 0, writable: true })
        }
        pub async fn write_all(&mut self, src: &[u8]) -> io::Result<()> {
            let e = env();
            if !self.writable {
                return Err(io::Error::from(io::ErrorKind::PermissionDenied));
            }
            let mut i = 0;
            while i < src.len() {
                if self.pos >= CAP {
                    return Err(io::Error::from(io::ErrorKind::Other));
                }
                e.fs_data[self.pos] = src[i];
                self.pos += 1;
                i += 1;
            }
            if self.pos > e.fs_len {
                e.fs_len = self.pos;
            }
            Ok(())
        }
        pub async fn read_to_end(&mut self, buf: &mut Vec<u8>) -> io::Result<usize> {
            let e = env();
            let mut n = 0;
            while self.pos < e.fs_len {
                buf.push(e.fs_data[self.pos]);
                self.pos += 1;
                n += 1;
            }
            Ok(n)
        }
    }
}
