// C15 / C04: JWK and signature encodings. Appended to acme_common/src/crypto/openssl_keys.rs.
// Environment: openssl model -- big numbers are MINIMAL big-endian vectors of symbolic length and
// content (so "leading zero byte" is a solver variable, not a 2^-8 event); keys are identities.
use openssl::bn::BigNum as MBigNum;
use openssl::st;
use std::marker::PhantomData;

fn ec_key(kt: KeyType) -> KeyPair {
    let nid = match kt {
        KeyType::EcdsaP256 => Nid::X9_62_PRIME256V1,
        KeyType::EcdsaP384 => Nid::SECP384R1,
        _ => Nid::SECP521R1,
    };
    KeyPair { key_type: kt, inner_key: PKey { id: Id::EC, param: nid.0, kid: 7, _t: PhantomData } }
}

// ---- the padding macro of sign_ecdsa, for every (size <= 5, length <= size) ---------------------
// get_ecdsa_sig_part! is generic in `size`; it is invoked here directly (child module) with a small
// symbolic-length part: result has exactly `size` bytes, the part right-aligned, zeros in front.
#[kani::proof]
#[kani::unwind(7)]
fn c15_ecdsa_sig_part_padding_small() {
    const SIZE_MAX: usize = 5;
    let size: usize = kani::any();
    kani::assume(size >= 1 && size <= SIZE_MAX);
    let a: [u8; 66] = kani::any();
    let len: usize = kani::any();
    kani::assume(len >= 1 && len <= size);
    let part = MBigNum { bytes: openssl::vec_cap72(&a, len) };
    let out: Vec<u8> = get_ecdsa_sig_part!(part, size);
    assert!(out.len() == size, "C15: ECDSA signature component does not have the fixed width");
    let pad = size - len;
    let mut i = 0;
    while i < SIZE_MAX {
        if i < size {
            if i < pad {
                assert!(out[i] == 0, "C15: ECDSA signature component is not left-padded with zeros");
            } else {
                assert!(out[i] == a[i - pad], "C15: ECDSA signature component is not right-aligned");
            }
        }
        i += 1;
    }
    core::mem::forget(out);
    core::mem::forget(part);
}

// ---- sign_ecdsa: R||S has exactly 2*size bytes -------------------------------------------------
// One component has ANY minimal length 1..=size (symbolic), the other a fixed length per instance
// (both symbolic at once made the Vec growth in `signature.append` allocate a symbolic size: CBMC
// ran out of memory).
fn ecdsa_fixed_width(kt: KeyType, size: usize, r_forced: usize, s_forced: usize) {
    let kp = ec_key(kt);
    st().force_r_len = r_forced;
    st().force_s_len = s_forced;
    let data = [1u8, 2, 3];
    let alg = kt.get_default_signature_alg();
    let r = kp.sign(&alg, &data);
    match &r {
        Ok(sig) => {
            assert!(sig.len() == 2 * size, "C15: ECDSA JWS signature is not the fixed-width R||S");
            let s = st();
            assert!(s.sig_key_kid == 7, "C04: signed by another key");
            let rp = size - s.sig_r_len;
            let sp = size - s.sig_s_len;
            let mut i = 0;
            while i < size {
                if i < rp {
                    assert!(sig[i] == 0, "C15: R is not left-padded with zeros");
                } else {
                    assert!(sig[i] == s.sig_r[i - rp], "C15: R is not right-aligned");
                }
                if i < sp {
                    assert!(sig[size + i] == 0, "C15: S is not left-padded with zeros");
                } else {
                    assert!(sig[size + i] == s.sig_s[i - sp], "C15: S is not right-aligned");
                }
                i += 1;
            }
        }
        Err(_) => assert!(false, "C15: signing with the key's own algorithm failed"),
    }
    core::mem::forget(r);
    core::mem::forget(kp);
}

// Length and signer only (content alignment is decided by the padding-macro harness for every
// size <= 5 and, byte for byte at full size, by the thorough-tier harnesses below): for r and s of ANY
// minimal length the JWS signature has exactly 2*size bytes.
fn ecdsa_len(kt: KeyType, size: usize) {
    let kp = ec_key(kt);
    st().force_r_len = 0;
    st().force_s_len = 0;
    let data = [1u8, 2, 3];
    let alg = kt.get_default_signature_alg();
    let r = kp.sign(&alg, &data);
    match &r {
        Ok(sig) => {
            assert!(sig.len() == 2 * size, "C15: ECDSA JWS signature is not the fixed-width R||S");
            let dl = if size == 32 { 32 } else if size == 48 { 48 } else { 64 };
            assert!(st().sig_key_kid == 7, "C04: signed by another key");
            assert!(st().sig_input_len == dl, "C15: ES256/384/512 must sign the SHA-256/384/512 digest of the input");
        }
        Err(_) => assert!(false, "C15: signing with the key's own algorithm failed"),
    }
    core::mem::forget(r);
    core::mem::forget(kp);
}
#[kani::proof]
#[kani::unwind(34)]
fn c15_ecdsa_len_p256() {
    ecdsa_len(KeyType::EcdsaP256, 32);
}
#[kani::proof]
#[kani::unwind(50)]
fn c15_ecdsa_len_p384() {
    ecdsa_len(KeyType::EcdsaP384, 48);
}
#[kani::proof]
#[kani::unwind(68)]
fn c15_ecdsa_len_p521() {
    ecdsa_len(KeyType::EcdsaP521, 66);
}

#[kani::proof]
#[kani::unwind(34)]
fn c15_ecdsa_fixed_width_p256_r_any() {
    ecdsa_fixed_width(KeyType::EcdsaP256, 32, 0, 32);
}
#[kani::proof]
#[kani::unwind(34)]
fn c15_ecdsa_fixed_width_p256_both_short() {
    ecdsa_fixed_width(KeyType::EcdsaP256, 32, 31, 30);
}

// ---- algorithm / key compatibility: exactly the 7 legal pairs ------------------------------------
fn kt_of(i: u8) -> KeyType {
    match i {
        0 => KeyType::Rsa2048,
        1 => KeyType::Rsa4096,
        2 => KeyType::EcdsaP256,
        3 => KeyType::EcdsaP384,
        4 => KeyType::EcdsaP521,
        5 => KeyType::Ed25519,
        _ => KeyType::Ed448,
    }
}
fn alg_of(i: u8) -> JwsSignatureAlgorithm {
    match i {
        0 => JwsSignatureAlgorithm::Hs256,
        1 => JwsSignatureAlgorithm::Hs384,
        2 => JwsSignatureAlgorithm::Hs512,
        3 => JwsSignatureAlgorithm::Rs256,
        4 => JwsSignatureAlgorithm::Es256,
        5 => JwsSignatureAlgorithm::Es384,
        6 => JwsSignatureAlgorithm::Es512,
        7 => JwsSignatureAlgorithm::Ed25519,
        _ => JwsSignatureAlgorithm::Ed448,
    }
}
#[kani::proof]
#[kani::stub(alloc::fmt::format, crate::verif_env::fmt_stub)]
#[kani::unwind(3)]
fn c15_alg_compat_table() {
    let k: u8 = kani::any();
    let a: u8 = kani::any();
    kani::assume(k < 7 && a < 9);
    let legal = (k <= 1 && a == 3) || (k == 2 && a == 4) || (k == 3 && a == 5) || (k == 4 && a == 6) || (k == 5 && a == 7) || (k == 6 && a == 8);
    let r = kt_of(k).check_alg_compatibility(&alg_of(a));
    assert!(r.is_ok() == legal, "C15/C04: key type / JWS algorithm compatibility differs from the 7 legal pairs");
    assert!(kt_of(k).check_alg_compatibility(&kt_of(k).get_default_signature_alg()).is_ok(), "C04: the default algorithm of a key type must be compatible with it");
    core::mem::forget(r);
}

// sign(): an incompatible algorithm never produces a signature; a compatible one is made by the
// key itself over the whole input with the digest the algorithm names (RSA / EdDSA records)
#[kani::proof]
#[kani::stub(alloc::fmt::format, crate::verif_env::fmt_stub)]
#[kani::unwind(6)]
fn c15_sign_dispatch_rsa_eddsa() {
    let k: u8 = kani::any();
    let a: u8 = kani::any();
    kani::assume((k <= 1 || k >= 5) && k < 7 && a < 9);
    let kt = kt_of(k);
    let id = match k {
        0 | 1 => Id::RSA,
        5 => Id::ED25519,
        _ => Id::ED448,
    };
    let kp = KeyPair { key_type: kt, inner_key: PKey { id, param: if k == 0 { 256 } else { 512 }, kid: 9, _t: PhantomData } };
    let data = [1u8, 2, 3, 4];
    st().sign_count = 0;
    let r = kp.sign(&alg_of(a), &data);
    let legal = (k <= 1 && a == 3) || (k == 5 && a == 7) || (k == 6 && a == 8);
    assert!(r.is_ok() == legal, "C04: sign() accepted an algorithm that does not match the key (or refused its own)");
    if legal {
        let s = st();
        assert!(s.sign_count == 1 && s.sign_kid == 9 && s.sign_len == 4, "C04: signature not made once by the key over the whole input");
        assert!(s.sign_md == if k <= 1 { 1 } else { 0 }, "C04: RS256 must use SHA-256; EdDSA signs without pre-hash");
    } else {
        assert!(st().sign_count == 0, "C04: a signature was produced for an illegal key/algorithm pair");
    }
    core::mem::forget(r);
    core::mem::forget(kp);
}

// witness
#[kani::proof]
#[kani::stub(alloc::fmt::format, crate::verif_env::fmt_stub)]
#[kani::unwind(34)]
fn c15_witness() {
    let kp = ec_key(KeyType::EcdsaP256);
    st().force_s_len = 32;
    let data = [1u8];
    let r = kp.sign(&JwsSignatureAlgorithm::Es256, &data);
    kani::cover!(r.is_ok() && st().sig_r_len == 31, "a signature with a short R is produced");
    kani::cover!(r.is_ok() && st().sig_r_len == 32, "a signature with a full-width R is produced");
    let r2 = kp.sign(&JwsSignatureAlgorithm::Es384, &data);
    kani::cover!(r2.is_err(), "an incompatible algorithm is refused");
    core::mem::forget(r);
    core::mem::forget(r2);
    core::mem::forget(kp);
}

// ---- public JWK of an EC key: fixed-width coordinates for x, y of ANY minimal length ------------
// acme_common::b64_encode is cut in this unit (records the length of its input, returns an empty
// string): the real base64 + serde_json path over 32..66 symbolic bytes exceeded 20 GB.
fn ecdsa_jwk(kt: KeyType, size: usize, thumb: bool) {
    let kp = ec_key(kt);
    st().b64_calls = 0;
    st().jwk_members = 0;
    st().jwk_alg_len = 0;
    let r = if thumb { kp.jwk_public_key_thumbprint() } else { kp.jwk_public_key() };
    match &r {
        Ok(_v) => {
            let s = st();
            assert!(s.jwk_members == if thumb { 4 } else { 6 }, "C15: EC JWK must have exactly the members crv, kty, x, y (+ alg, use outside the thumbprint form)");
            if !thumb {
                let want: &[u8; 5] = if size == 32 { b"ES256" } else if size == 48 { b"ES384" } else { b"ES512" };
                assert!(s.jwk_alg_len == 5 && s.jwk_alg == *want, "C15: the JWK alg member must be the JWS algorithm of the curve (ES256 / ES384 / ES512)");
            }
            assert!(s.b64_calls == 2, "C15: an EC JWK encodes exactly two coordinates");
            assert!(s.b64_in_len[0] == size, "C15: JWK x is not encoded from exactly `size` bytes (fixed width)");
            assert!(s.b64_in_len[1] == size, "C15: JWK y is not encoded from exactly `size` bytes (fixed width)");
        }
        Err(_) => assert!(false, "C15: JWK construction failed"),
    }
    core::mem::forget(r);
    core::mem::forget(kp);
}
fn rsa_jwk(thumb: bool) {
    let kp = KeyPair { key_type: KeyType::Rsa2048, inner_key: PKey { id: Id::RSA, param: 256, kid: 3, _t: PhantomData } };
    st().b64_calls = 0;
    let r = if thumb { kp.jwk_public_key_thumbprint() } else { kp.jwk_public_key() };
    match &r {
        Ok(_v) => {
            let s = st();
            assert!(s.b64_calls == 2 && s.b64_in_len[0] == s.rsa_e_len && s.b64_in_len[1] == s.rsa_n_len, "C15: RSA JWK e and n must be the minimal big-endian vectors");
        }
        Err(_) => assert!(false, "C15: JWK construction failed"),
    }
    core::mem::forget(r);
    core::mem::forget(kp);
}
// serde_json's Map::insert (BTreeMap<String, Value>) is stubbed in these harnesses: the JSON object
// itself is not inspected here, only what is handed to the encoder.
fn map_insert_stub(_m: &mut serde_json::Map<String, Value>, k: String, v: Value) -> Option<Value> {
    let s = st();
    s.jwk_members += 1;
    if k.len() == 3 && k.as_bytes()[0] == b'a' && k.as_bytes()[1] == b'l' && k.as_bytes()[2] == b'g' {
        if let Value::String(a) = &v {
            s.jwk_alg_len = a.len();
            let mut i = 0;
            while i < 5 {
                if i < a.len() {
                    s.jwk_alg[i] = a.as_bytes()[i];
                }
                i += 1;
            }
        }
    }
    core::mem::forget(k);
    core::mem::forget(v);
    None
}
macro_rules! jwk_inst {
    ($n:ident, $kt:expr, $size:expr, $th:expr) => {
        #[kani::proof]
        #[kani::stub(serde_json::Map::insert, map_insert_stub)]
        #[kani::unwind(2)]
        fn $n() {
            ecdsa_jwk($kt, $size, $th);
        }
    };
}
jwk_inst!(c15_ecdsa_jwk_p256, KeyType::EcdsaP256, 32, false);
jwk_inst!(c15_ecdsa_jwk_thumbprint_p256, KeyType::EcdsaP256, 32, true);
jwk_inst!(c15_ecdsa_jwk_p384, KeyType::EcdsaP384, 48, false);
jwk_inst!(c15_ecdsa_jwk_p521, KeyType::EcdsaP521, 66, false);
#[kani::proof]
#[kani::stub(serde_json::Map::insert, map_insert_stub)]
#[kani::unwind(2)]
fn c15_rsa_jwk() {
    rsa_jwk(kani::any());
}
