// C05 / C06 / C10: appended to acmed/src/certificate.rs (child module: private methods visible).
use crate::verif_env::{block_on, env, rs_stub};
use acme_common::crypto::{HashFunction as HF, KeyType as KT};

pub fn mk_fm() -> FileManager {
    FileManager {
        account_name: String::new(),
        account_directory: String::new(),
        crt_name: String::new(),
        crt_name_format: String::new(),
        crt_directory: String::new(),
        crt_key_type: String::new(),
        cert_file_mode: 0o644,
        cert_file_owner: None,
        cert_file_group: None,
        cert_file_ext: None,
        pk_file_mode: 0o600,
        pk_file_owner: None,
        pk_file_group: None,
        pk_file_ext: None,
        hooks: vec![],
        env: HashMap::new(),
    }
}

pub fn mk_cert(identifiers: Vec<Identifier>) -> Certificate {
    Certificate {
        account_name: String::new(),
        identifiers,
        subject_attributes: HashMap::new(),
        key_type: KT::EcdsaP256,
        csr_digest: HF::Sha256,
        kp_reuse: false,
        endpoint_name: String::new(),
        hooks: vec![],
        crt_name: String::new(),
        env: HashMap::new(),
        random_early_renew: Duration::ZERO,
        renew_delay: Duration::ZERO,
        file_manager: mk_fm(),
    }
}

fn chall(i: u8) -> Challenge {
    match i {
        0 => Challenge::Http01,
        1 => Challenge::Dns01,
        _ => Challenge::TlsAlpn01,
    }
}
fn ident(t: IdentifierType, v: &str, c: u8) -> Identifier {
    Identifier { id_type: t, value: String::from(v), challenge: chall(c), env: HashMap::new() }
}

// A name and its wildcard configured with (possibly) different challenges, in either order (one
// harness instance per order): an authorization for identifier value "a" must be solved with the
// entry "a" when it is not a wildcard authorization and with the entry "*.a" when it is (RFC 8555
// 7.1.4: the wildcard authorization carries the base domain and wildcard=true).
fn lookup_pair(wild_first: bool) {
    let c_plain: u8 = kani::any();
    let c_wild: u8 = kani::any();
    kani::assume(c_plain < 3 && c_wild < 3);
    let plain = ident(IdentifierType::Dns, "a", c_plain);
    let wild = ident(IdentifierType::Dns, "*.a", c_wild);
    let ids = if wild_first { vec![wild, plain] } else { vec![plain, wild] };
    let cert = mk_cert(ids);
    let w: bool = kani::any();
    let r = cert.get_identifier_from_str("a", w);
    match &r {
        Ok(id) => {
            if w {
                assert!(id.value.len() == 3 && id.challenge == chall(c_wild), "C05: a wildcard authorization must use the wildcard entry's challenge");
            } else {
                assert!(id.value.len() == 1 && id.challenge == chall(c_plain), "C05: a plain authorization must use the plain entry's challenge");
            }
        }
        Err(_) => assert!(false, "C05: configured identifier not found"),
    }
    core::mem::forget(r);
    core::mem::forget(cert);
}
#[kani::proof]
#[kani::stub(std::hash::RandomState::new, rs_stub)]
#[kani::stub(alloc::fmt::format, crate::verif_env::fmt_stub)]
#[kani::unwind(2)]
fn c05_lookup_plain_then_wildcard() {
    lookup_pair(false);
}
#[kani::proof]
#[kani::stub(std::hash::RandomState::new, rs_stub)]
#[kani::stub(alloc::fmt::format, crate::verif_env::fmt_stub)]
#[kani::unwind(2)]
fn c05_lookup_wildcard_then_plain() {
    lookup_pair(true);
}

// only one form configured: found whatever the flag says (servers that omit the flag); a name that
// is not configured is rejected
fn lookup_single(wild_cfg: bool) {
    let c: u8 = kani::any();
    kani::assume(c < 3);
    let ids = vec![ident(IdentifierType::Dns, if wild_cfg { "*.a" } else { "a" }, c)];
    let cert = mk_cert(ids);
    let w: bool = kani::any();
    let r = cert.get_identifier_from_str("a", w);
    assert!(matches!(&r, Ok(id) if id.challenge == chall(c)), "C05: the only configured form of the name must be used");
    let r2 = cert.get_identifier_from_str("c", w);
    assert!(r2.is_err(), "C05: an identifier that is not configured must not be solved");
    core::mem::forget(r);
    core::mem::forget(r2);
    core::mem::forget(cert);
}
#[kani::proof]
#[kani::stub(std::hash::RandomState::new, rs_stub)]
#[kani::stub(alloc::fmt::format, crate::verif_env::fmt_stub)]
#[kani::unwind(2)]
fn c05_lookup_single_plain() {
    lookup_single(false);
}
#[kani::proof]
#[kani::stub(std::hash::RandomState::new, rs_stub)]
#[kani::stub(alloc::fmt::format, crate::verif_env::fmt_stub)]
#[kani::unwind(2)]
fn c05_lookup_single_wildcard() {
    lookup_single(true);
}

// ---- C06: renewal exactly when due ---------------------------------------------------------------
// Environment: storage::{certificate_files_exists, get_certificate} are cut to the file model of
// crate::verif_env (files present or not; certificate = model encoding parsed by the openssl model:
// notAfter - now as (days, secs), SAN list); rand model: gen_range returns ANY value of the range.
fn put_cert(days: i32, secs: i32, san: &[(u8, u8)]) {
    let e = env();
    e.cert_file[0] = b'C';
    e.cert_file[1] = 1;
    let d = days.to_le_bytes();
    let s = secs.to_le_bytes();
    let mut i = 0;
    while i < 4 {
        e.cert_file[2 + i] = d[i];
        e.cert_file[6 + i] = s[i];
        i += 1;
    }
    e.cert_file[10] = san.len() as u8;
    let mut i = 0;
    while i < san.len() {
        e.cert_file[11 + 2 * i] = san[i].0;
        e.cert_file[12 + 2 * i] = san[i].1;
        i += 1;
    }
    e.cert_file_len = 11 + 2 * san.len();
}

fn any_diff() -> (i32, i32, u128) {
    let days: i32 = kani::any();
    let secs: i32 = kani::any();
    kani::assume(secs > -86_400 && secs < 86_400);
    kani::assume((days >= 0 && secs >= 0) || (days <= 0 && secs <= 0));
    let exact: i128 = days as i128 * 86_400 + secs as i128;
    (days, secs, if exact > 0 { exact as u128 } else { 0 })
}

// renew_in == max(0, E - renew_delay) - J with J in [0, random_early_renew) (J = 0 when it is zero),
// clamped at 0, for every remaining lifetime E, renew_delay and random_early_renew (whole seconds).
#[kani::proof]
#[kani::stub(std::hash::RandomState::new, rs_stub)]
#[kani::stub(alloc::fmt::format, crate::verif_env::fmt_stub)]
#[kani::unwind(2)]
fn c06_renew_in_window() {
    renew_in_window(kani::any(), kani::any());
}
#[kani::proof]
#[kani::stub(std::hash::RandomState::new, rs_stub)]
#[kani::stub(alloc::fmt::format, crate::verif_env::fmt_stub)]
#[kani::unwind(2)]
fn c06_renew_in_window_32bit() {
    let rd: u32 = kani::any();
    let rer: u32 = kani::any();
    renew_in_window(rd as u64, rer as u64);
}
fn renew_in_window(rd: u64, rer: u64) {
    let (days, secs, e_secs) = any_diff();
    put_cert(days, secs, &[]);
    let mut cert = mk_cert(vec![]);
    cert.renew_delay = Duration::from_secs(rd);
    cert.random_early_renew = Duration::from_secs(rer);
    let x = block_on(crate::storage::get_certificate(&cert.file_manager)).unwrap();
    let r = cert.renew_in(&x);
    match &r {
        Ok(d) => {
            let base: u128 = if e_secs > rd as u128 { e_secs - rd as u128 } else { 0 };
            let got = d.as_secs() as u128;
            assert!(got <= base, "C06: renewal scheduled later than notAfter - renew_delay");
            if rer == 0 {
                assert!(got == base && d.subsec_nanos() == 0, "C06: without random_early_renew the renewal time must be exactly notAfter - renew_delay");
            } else {
                assert!(base - got <= rer as u128, "C06: renewal scheduled earlier than notAfter - renew_delay - random_early_renew");
                assert!(got == 0 || base - got < rer as u128 || (base - got == rer as u128 && d.subsec_nanos() > 0), "C06: early-renew jitter must be < random_early_renew");
            }
        }
        Err(_) => assert!(false, "C06: renew_in failed"),
    }
    core::mem::forget(r);
    core::mem::forget(x);
    core::mem::forget(cert);
}

// schedule_renewal with no identifier to compare (the HashSet<String> comparison of
// has_missing_identifiers exceeded 20 GB in the solver for even one configured name -- outside):
// immediate (ZERO) iff a file is missing, otherwise exactly notAfter - renew_delay; a certificate file
// that cannot be read is an error, not an immediate renewal.
#[kani::proof]
#[kani::stub(std::hash::RandomState::new, rs_stub)]
#[kani::stub(alloc::fmt::format, crate::verif_env::fmt_stub)]
#[kani::unwind(2)]
fn c06_schedule_files_and_time() {
    let (days, secs, e_secs) = any_diff();
    put_cert(days, secs, &[]);
    let exist: bool = kani::any();
    let unreadable: bool = kani::any();
    env().files_exist = exist;
    env().cert_unreadable = unreadable;
    let rd: u32 = kani::any();
    let mut cert = mk_cert(vec![]);
    cert.renew_delay = Duration::from_secs(rd as u64);
    let r = block_on(cert.schedule_renewal());
    match &r {
        Ok(d) => {
            if !exist {
                assert!(d.is_zero(), "C06: a missing certificate or key file must trigger an immediate request");
            } else {
                assert!(!unreadable, "C06: an unreadable certificate was scheduled as if it had been read");
                let base: u128 = if e_secs > rd as u128 { e_secs - rd as u128 } else { 0 };
                assert!(d.as_secs() as u128 == base && d.subsec_nanos() == 0, "C06: renewal must be scheduled exactly at notAfter - renew_delay");
            }
        }
        Err(_) => assert!(exist && unreadable, "C06: schedule_renewal failed on a readable certificate"),
    }
    core::mem::forget(r);
    core::mem::forget(cert);
}

#[kani::proof]
#[kani::stub(std::hash::RandomState::new, rs_stub)]
#[kani::stub(alloc::fmt::format, crate::verif_env::fmt_stub)]
#[kani::unwind(2)]
fn c06_witness() {
    let (days, secs, _e) = any_diff();
    put_cert(days, secs, &[]);
    env().files_exist = kani::any();
    let mut cert = mk_cert(vec![]);
    cert.renew_delay = Duration::from_secs(10);
    cert.random_early_renew = Duration::from_secs(5);
    let r = block_on(cert.schedule_renewal());
    kani::cover!(matches!(&r, Ok(d) if d.is_zero()), "immediate request reachable");
    kani::cover!(matches!(&r, Ok(d) if d.as_secs() > 1000), "deferred renewal reachable");
    core::mem::forget(r);
    core::mem::forget(cert);
}
