// C05 / C06 / C10: appended to acmed/src/certificate.rs (child module: private methods visible).
use crate::verif_env::{block_on, env, rs_stub};
use acme_common::crypto::{HashFunction as HF, KeyType as KT};

pub fn mk_fm() -> FileManager {
    FileManager {
        account_name: String::new(),
        account_directory: String::new(),
        crt_name: String::new(),
        crt_name_format: String::new(),
        crt_directory: String::new(),
        crt_key_type: String::new(),
        cert_file_mode: 0o644,
        cert_file_owner: None,
        cert_file_group: None,
        cert_file_ext: None,
        pk_file_mode: 0o600,
        pk_file_owner: None,
        pk_file_group: None,
        pk_file_ext: None,
        hooks: vec![],
        env: HashMap::new(),
    }
}

pub fn mk_cert(identifiers: Vec<Identifier>) -> Certificate {
    Certificate {
        account_name: String::new(),
        identifiers,
        subject_attributes: HashMap::new(),
        key_type: KT::EcdsaP256,
        csr_digest: HF::Sha256,
        kp_reuse: false,
        endpoint_name: String::new(),
        hooks: vec![],
        crt_name: String::new(),
        env: HashMap::new(),
        random_early_renew: Duration::ZERO,
        renew_delay: Duration::ZERO,
        file_manager: mk_fm(),
    }
}

fn chall(i: u8) -> Challenge {
    match i {
        0 => Challenge::Http01,
        1 => Challenge::Dns01,
        _ => Challenge::TlsAlpn01,
    }
}
fn ident(t: IdentifierType, v: &str, c: u8) -> Identifier {
    Identifier { id_type: t, value: String::from(v), challenge: chall(c), env: HashMap::new() }
}

// A name and its wildcard configured with (possibly) different challenges, in either order (one
// harness instance per order): an authorization for identifier value "a" must be solved with the
// entry "a" when it is not a wildcard authorization and with the entry "*.a" when it is (RFC 8555
// 7.1.4: the wildcard authorization carries the base domain and wildcard=true).
fn lookup_pair(wild_first: bool) {
    let c_plain: u8 = kani::any();
    let c_wild: u8 = kani::any();
    kani::assume(c_plain < 3 && c_wild < 3);
    let plain = ident(IdentifierType::Dns, "a", c_plain);
    let wild = ident(IdentifierType::Dns, "*.a", c_wild);
    let ids = if wild_first { vec![wild, plain] } else { vec![plain, wild] };
    let cert = mk_cert(ids);
    let w: bool = kani::any();
    let r = cert.get_identifier_from_str("a", w);
    match &r {
        Ok(id) => {
            if w {
                assert!(id.value.len() == 3 && id.challenge == chall(c_wild), "C05: a wildcard authorization must use the wildcard entry's challenge");
            } else {
                assert!(id.value.len() == 1 && id.challenge == chall(c_plain), "C05: a plain authorization must use the plain entry's challenge");
            }
        }
        Err(_) => assert!(false, "C05: configured identifier not found"),
    }
    core::mem::forget(r);
    core::mem::forget(cert);
}
#[kani::proof]
#[kani::stub(std::hash::RandomState::new, rs_stub)]
#[kani::stub(alloc::fmt::format, crate::verif_env::fmt_stub)]
#[kani::unwind(2)]
fn c05_lookup_plain_then_wildcard() {
    lookup_pair(false);
}
#[kani::proof]
#[kani::stub(std::hash::RandomState::new, rs_stub)]
#[kani::stub(alloc::fmt::format, crate::verif_env::fmt_stub)]
#[kani::unwind(2)]
fn c05_lookup_wildcard_then_plain() {
    lookup_pair(true);
}

// only one form configured: found whatever the flag says (servers that omit the flag); a name that
// is not configured is rejected
fn lookup_single(wild_cfg: bool) {
    let c: u8 = kani::any();
    kani::assume(c < 3);
    let ids = vec![ident(IdentifierType::Dns, if wild_cfg { "*.a" } else { "a" }, c)];
    let cert = mk_cert(ids);
    let w: bool = kani::any();
    let r = cert.get_identifier_from_str("a", w);
    assert!(matches!(&r, Ok(id) if id.challenge == chall(c)), "C05: the only configured form of the name must be used");
    let r2 = cert.get_identifier_from_str("c", w);
    assert!(r2.is_err(), "C05: an identifier that is not configured must not be solved");
    core::mem::forget(r);
    core::mem::forget(r2);
    core::mem::forget(cert);
}
#[kani::proof]
#[kani::stub(std::hash::RandomState::new, rs_stub)]
#[kani::stub(alloc::fmt::format, crate::verif_env::fmt_stub)]
#[kani::unwind(2)]
fn c05_lookup_single_plain() {
    lookup_single(false);
}
#[kani::proof]
#[kani::stub(std::hash::RandomState::new, rs_stub)]
#[kani::stub(alloc::fmt::format, crate::verif_env::fmt_stub)]
#[kani::unwind(2)]
fn c05_lookup_single_wildcard() {
    lookup_single(true);
}
