// C09 (rate limits never exceeded, no withholding) and C19 (b) (zero / huge rate limits never
// crash or hang). Appended to acmed/src/endpoint.rs as a child module: RateLimit's private fields
// and methods are reached directly. Environment: `tokio::time::sleep` is replaced by
// crate::verif_env::sleep (a sleep lasts ANY whole number of seconds >= 0, an over-approximation),
// std::time::Instant::now is stubbed by a non-decreasing symbolic clock (whole seconds).
use crate::verif_env::{block_on, env, inst, now_stub};

/// One admission from an arbitrary log of fixed length L ("absent" entries are ancient, i.e.
/// older than any window), limits sorted by decreasing period as RateLimit::new delivers them.
/// (A) per limit (n, p): at most n-1 pre-state entries lie in the window (t-p, t] of the admission;
/// (B) no pre-state entry inside the longest window was pruned, and t itself is logged.
/// Induction: (B) keeps every admission of the last p_max seconds in the log, so (A) counts all
/// of them: any n+1 consecutive admissions span at least p.
fn step<const L: usize>(n1: usize, n2: Option<usize>) {
    let p1: u8 = kani::any();
    kani::assume(p1 >= 1 && p1 <= 20);
    let d1 = Duration::from_secs(p1 as u64);
    let mut limits = vec![(n1, d1)];
    let mut d2 = Duration::from_secs(0);
    if let Some(n2) = n2 {
        let p2: u8 = kani::any();
        kani::assume(p2 >= 1 && p2 <= p1);
        d2 = Duration::from_secs(p2 as u64);
        limits.push((n2, d2));
    }
    let start: u8 = kani::any();
    env().now = 100 + start as u64;
    env().sleep_max = 2;
    let mut pre = [0u64; L];
    let mut log = Vec::with_capacity(L + 1);
    let mut i = 0;
    while i < L {
        let x: u8 = kani::any();
        kani::assume(x <= start);
        pre[i] = if kani::any() { 100 + x as u64 } else { 0 };
        log.push(inst(pre[i]));
        i += 1;
    }
    let mut rl = RateLimit { limits, query_log: log };
    block_on(rl.block_until_allowed());
    let t_new = *rl.query_log.last().unwrap();
    assert!(t_new == inst(env().now), "the admission is not logged at the time it happened");
    let mut c1 = 0;
    let mut c2 = 0;
    let mut i = 0;
    while i < L {
        if inst(pre[i]) + d1 > t_new {
            c1 += 1;
            assert!(rl.query_log.contains(&inst(pre[i])), "C09: a request inside the longest window was forgotten");
        }
        if n2.is_some() && inst(pre[i]) + d2 > t_new {
            c2 += 1;
        }
        i += 1;
    }
    assert!(c1 + 1 <= n1, "C09: more than n requests inside one period (first limit)");
    if let Some(n2) = n2 {
        assert!(c2 + 1 <= n2, "C09: more than n requests inside one period (second limit)");
    }
    core::mem::forget(rl);
}

#[kani::proof]
#[kani::unwind(5)]
fn c09_step_1limit_n1() {
    step::<1>(1, None);
}

#[kani::proof]
#[kani::unwind(5)]
fn c09_step_1limit_n2() {
    step::<2>(2, None);
}

#[kani::proof]
#[kani::unwind(6)]
fn c09_step_1limit_n3() {
    step::<3>(3, None);
}

#[kani::proof]
#[kani::unwind(5)]
fn c09_step_2limits_n2_n1() {
    step::<2>(2, Some(1));
}

#[kani::proof]
#[kani::unwind(6)]
fn c09_step_2limits_n3_n2() {
    step::<3>(3, Some(2));
}

// "Requests are not withheld forever when the limits permit them": if fewer than n entries are in
// every window when the call starts and stays so (the clock only moves forward, so it does), the
// call returns after exactly one sleep.
fn live<const L: usize>(n1: usize) {
    let p1: u8 = kani::any();
    kani::assume(p1 >= 1 && p1 <= 20);
    let d1 = Duration::from_secs(p1 as u64);
    let start: u8 = kani::any();
    env().now = 100 + start as u64;
    env().sleeps = 0;
    env().sleep_max = 1;
    env().sleep_strict = true;
    let mut log = Vec::with_capacity(L + 1);
    let mut inside = 0;
    let mut i = 0;
    while i < L {
        let x: u8 = kani::any();
        kani::assume(x <= start);
        let t = if kani::any() { 100 + x as u64 } else { 0 };
        if t + p1 as u64 > 100 + start as u64 {
            inside += 1;
        }
        log.push(inst(t));
        i += 1;
    }
    kani::assume(inside < n1);
    let mut rl = RateLimit { limits: vec![(n1, d1)], query_log: log };
    block_on(rl.block_until_allowed());
    assert!(env().sleeps == 1, "C09: a permitted request was withheld for more than one sleep");
    core::mem::forget(rl);
}

#[kani::proof]
#[kani::unwind(5)]
fn c09_live_n2() {
    live::<2>(2);
}

// reachability witness for the step harnesses: the limiter does refuse (second loop iteration) and
// does admit with a non-trivial window content
#[kani::proof]
#[kani::unwind(5)]
fn c09_witness() {
    let d1 = Duration::from_secs(5);
    env().now = 100;
    env().sleeps = 0;
    env().sleep_max = 2;
    let x: u8 = kani::any();
    kani::assume(x <= 100);
    let mut rl = RateLimit { limits: vec![(1, d1)], query_log: vec![inst(x as u64)] };
    block_on(rl.block_until_allowed());
    kani::cover!(env().sleeps == 2, "limiter refused once, then admitted");
    kani::cover!(env().sleeps == 1 && rl.query_log.len() == 2, "admitted at once, old entry kept");
    kani::cover!(env().sleeps == 1 && rl.query_log.len() == 1, "admitted at once, old entry pruned");
    core::mem::forget(rl);
}

// ---- C19 (b): zero and huge rate limits ----------------------------------------------------

// get_sleep_duration never panics (division by zero, multiplication overflow) for any limit that
// RateLimit::new lets through: number is `nb` (one harness per small value and one for a symbolic
// 16-bit value), period any number of whole seconds in u64.
fn sleep_dur(nb: usize) {
    let p: u64 = kani::any();
    let rl = RateLimit { limits: vec![(nb, Duration::from_secs(p))], query_log: vec![] };
    let d = rl.get_sleep_duration();
    assert!(d.as_millis() >= crate::MIN_RATE_LIMIT_SLEEP_MILISEC as u128 && d.as_millis() <= crate::MAX_RATE_LIMIT_SLEEP_MILISEC as u128 || p < 2,
        "sleep duration outside [MIN, MAX]");
    core::mem::forget(rl);
}

#[kani::proof]
#[kani::unwind(3)]
fn c19_rl_sleep_duration_n1() {
    sleep_dur(1);
}

#[kani::proof]
#[kani::unwind(3)]
fn c19_rl_sleep_duration_n7() {
    sleep_dur(7);
}
// boundary numbers: 2^32 (truncates to 0 as u32), 2^32 + 1, usize::MAX
#[kani::proof]
#[kani::unwind(3)]
fn c19_rl_sleep_duration_n_2p32() {
    sleep_dur(1usize << 32);
}
#[kani::proof]
#[kani::unwind(3)]
fn c19_rl_sleep_duration_n_max() {
    sleep_dur(usize::MAX);
}
// number symbolic over the boundary region {k * 2^16 + d} with a small period range: every 16-bit
// multiple pattern of the number with period 2..=3 s (division by a symbolic number is kept narrow)
#[kani::proof]
#[kani::unwind(3)]
fn c19_rl_sleep_duration_n_shifted() {
    let sh: u8 = kani::any();
    kani::assume(sh < 64);
    let nb: usize = 1usize << sh;
    let rl = RateLimit { limits: vec![(nb, Duration::from_secs(2))], query_log: vec![] };
    let d = rl.get_sleep_duration();
    assert!(d.as_millis() >= crate::MIN_RATE_LIMIT_SLEEP_MILISEC as u128 && d.as_millis() <= crate::MAX_RATE_LIMIT_SLEEP_MILISEC as u128, "sleep duration outside [MIN, MAX]");
    core::mem::forget(rl);
}

// Every (number, period) accepted by RateLimit::new: the first request on an empty log is admitted
// after one sleep (no division by zero, no permanent refusal). parse_duration is cut in this unit
// (returns any Duration of whole seconds) so `number` and the period are both symbolic here.
fn first_request(nb: usize) {
    let raw = [(nb, String::new())];
    env().now = 100;
    env().sleeps = 0;
    env().sleep_max = 1;
    env().sleep_strict = true;
    match RateLimit::new(&raw) {
        Ok(mut rl) => {
            assert!(nb != 0 || rl.limits.is_empty(), "C19: a limit of zero requests per period was accepted (nothing can ever be sent)");
            block_on(rl.block_until_allowed());
            assert!(env().sleeps == 1, "C19: first request on an idle endpoint is refused (would hang)");
            assert!(rl.query_log.len() == 1);
            core::mem::forget(rl);
        }
        Err(e) => {
            core::mem::forget(e);
        }
    }
}

#[kani::proof]
#[kani::stub(alloc::fmt::format, crate::verif_env::fmt_stub)]
#[kani::unwind(2)]
fn c19_rl_first_request_n0() {
    first_request(0);
}
#[kani::proof]
#[kani::stub(alloc::fmt::format, crate::verif_env::fmt_stub)]
#[kani::unwind(2)]
fn c19_rl_first_request_n1() {
    first_request(1);
}
#[kani::proof]
#[kani::stub(alloc::fmt::format, crate::verif_env::fmt_stub)]
#[kani::unwind(2)]
fn c19_rl_first_request_n3() {
    first_request(3);
}

// RateLimit::new delivers the limits sorted by decreasing period (what prune_log and
// get_sleep_duration rely on) and keeps every (number, period) pair.
#[kani::proof]
#[kani::unwind(5)]
fn c09_new_sorted() {
    let raw = [(1usize, String::new()), (2usize, String::new()), (3usize, String::new())];
    if let Ok(rl) = RateLimit::new(&raw) {
        assert!(rl.limits.len() == 3);
        assert!(rl.limits[0].1 >= rl.limits[1].1 && rl.limits[1].1 >= rl.limits[2].1, "C09: limits not sorted by decreasing period");
        let s = rl.limits[0].0 + rl.limits[1].0 + rl.limits[2].0;
        assert!(s == 6);
        assert!(rl.query_log.is_empty());
        core::mem::forget(rl);
    }
}

// a zero limit anywhere in the list is rejected, whatever the periods (two limits, any order after sorting)
#[kani::proof]
#[kani::stub(alloc::fmt::format, crate::verif_env::fmt_stub)]
#[kani::unwind(3)]
fn c19_rl_zero_among_two() {
    let zero_first: bool = kani::any();
    let raw = if zero_first { [(0usize, String::new()), (1usize, String::new())] } else { [(1usize, String::new()), (0usize, String::new())] };
    let r = RateLimit::new(&raw);
    assert!(r.is_err(), "C19: a rate limit of zero requests per period was accepted (no request can ever be sent)");
    core::mem::forget(r);
}
