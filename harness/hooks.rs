// C10: hooks::call / call_single -- which hooks run, in which order, one at a time, and when a failing
// hook aborts the operation. Appended to acmed/src/hooks.rs.
// Environment: async-process model (env/async_process_env): spawn/wait events are recorded, the exit
// status is chosen by the solver. Hooks have no args / stdin / stdout / stderr templates (minijinja
// rendering is outside).
use crate::verif_env::{block_on, rs_stub};
use async_process::st as proc_st;

struct Lg;
impl HasLogger for Lg {
    fn warn(&self, _m: &str) {}
    fn info(&self, _m: &str) {}
    fn debug(&self, _m: &str) {}
    fn trace(&self, _m: &str) {}
}

fn mk_hook(name: &str, has_type: bool, allow_failure: bool) -> Hook {
    let mut hook_type = HashSet::new();
    if has_type {
        hook_type.insert(HookType::PostOperation);
    } else {
        hook_type.insert(HookType::FilePreEdit);
    }
    Hook { name: String::from(name), hook_type, cmd: String::from(name), args: None, stdin: HookStdin::None, stdout: None, stderr: None, allow_failure }
}
fn mk_data() -> PostOperationHookData {
    PostOperationHookData { identifiers: vec![], key_type: String::new(), status: String::new(), is_success: true, certificate_path: PathBuf::new(), private_key_path: PathBuf::new(), env: HashMap::new() }
}

// Three hooks a, b, c declared in that order; T0/T1/T2 say which of them list the event's type.
// allow_failure of each hook and every exit status are symbolic.
fn call_order<const T0: bool, const T1: bool, const T2: bool>() {
    let af0: bool = kani::any();
    let af1: bool = kani::any();
    let af2: bool = kani::any();
    let hooks = vec![mk_hook("a", T0, af0), mk_hook("b", T1, af1), mk_hook("c", T2, af2)];
    let data = mk_data();
    let r = block_on(call(&Lg, &hooks, &data, HookType::PostOperation));
    let s = proc_st();
    assert!(!s.overlap && s.alive == 0, "C10: two hooks alive at once / a hook not waited for");
    // expected: the hooks having the type, in declaration order, cut after the first failure that is not allowed
    let has = [T0, T1, T2];
    let af = [af0, af1, af2];
    let names = [b'a', b'b', b'c'];
    let mut k = 0; // index in the spawn log
    let mut aborted = false;
    let mut i = 0;
    while i < 3 {
        if has[i] && !aborted {
            assert!(k < s.spawned && s.prog0[k] == names[i], "C10: a hook of the event's type was skipped or hooks ran out of declaration order");
            if s.exit[k] != 0 && !af[i] {
                aborted = true;
            }
            k += 1;
        }
        i += 1;
    }
    assert!(s.spawned == k, "C10: a hook ran that does not list the event's type, or after an unrecoverable failure");
    assert!(r.is_err() == aborted, "C10: the operation must be aborted iff a hook failed without allow_failure");
    core::mem::forget(r);
    core::mem::forget(hooks);
    core::mem::forget(data);
}
macro_rules! order_inst {
    ($n:ident, $a:expr, $b:expr, $c:expr) => {
        #[kani::proof]
        #[kani::stub(std::hash::RandomState::new, rs_stub)]
        #[kani::stub(alloc::fmt::format, crate::verif_env::fmt_stub)]
        #[kani::unwind(2)]
        fn $n() {
            call_order::<$a, $b, $c>();
        }
    };
}
order_inst!(c10_call_order_111, true, true, true);
order_inst!(c10_call_order_101, true, false, true);
order_inst!(c10_call_order_011, false, true, true);
order_inst!(c10_call_order_000, false, false, false);

// one hook: runs iff it lists the event's type; a failing exit aborts unless allow_failure
fn call_one<const T0: bool>() {
    let af0: bool = kani::any();
    let hooks = vec![mk_hook("a", T0, af0)];
    let data = mk_data();
    let r = block_on(call(&Lg, &hooks, &data, HookType::PostOperation));
    let s = proc_st();
    assert!(!s.overlap && s.alive == 0, "C10: a hook not waited for");
    if T0 {
        assert!(s.spawned == 1 && s.prog0[0] == b'a', "C10: the hook listing the event's type did not run exactly once");
        assert!(r.is_err() == (s.exit[0] != 0 && !af0), "C10: a non-zero exit / signal must abort the operation unless allow_failure is set");
    } else {
        assert!(s.spawned == 0 && r.is_ok(), "C10: a hook that does not list the event's type must not run");
    }
    core::mem::forget(r);
    core::mem::forget(hooks);
    core::mem::forget(data);
}
#[kani::proof]
#[kani::stub(std::hash::RandomState::new, rs_stub)]
#[kani::stub(alloc::fmt::format, crate::verif_env::fmt_stub)]
#[kani::unwind(2)]
fn c10_call_one_listed() {
    call_one::<true>();
}
#[kani::proof]
#[kani::stub(std::hash::RandomState::new, rs_stub)]
#[kani::stub(alloc::fmt::format, crate::verif_env::fmt_stub)]
#[kani::unwind(2)]
fn c10_call_one_not_listed() {
    call_one::<false>();
}
