// C02 / C13: the open + write + chown statements of storage::write_file, pasted verbatim from /repo
// (after the unit's expression cuts) on every run. Needs harness/storage.rs (mk_fm) in the same module.

// File model with a plain error type: std::io::Error's drop glue (Box<dyn Error> behind a tagged
// pointer) made the solver run out of memory; the error value itself is not the subject here.
pub struct FsErr;
impl From<FsErr> for Error {
    fn from(_e: FsErr) -> Self {
        Error::from("i/o error")
    }
}
pub mod fsm {
    use super::FsErr;
    use crate::verif_env::env;
    use std::path::Path;
    pub const CAP: usize = 4;
    pub struct OpenOptions {
        write: bool,
        create: bool,
        truncate: bool,
        append: bool,
        mode: u32,
    }
    impl OpenOptions {
        pub fn new() -> Self {
            OpenOptions { write: false, create: false, truncate: false, append: false, mode: 0o666 }
        }
        pub fn write(&mut self, v: bool) -> &mut Self {
            self.write = v;
            self
        }
        pub fn create(&mut self, v: bool) -> &mut Self {
            self.create = v;
            self
        }
        pub fn truncate(&mut self, v: bool) -> &mut Self {
            self.truncate = v;
            self
        }
        pub fn append(&mut self, v: bool) -> &mut Self {
            self.append = v;
            self
        }
        pub fn mode(&mut self, m: u32) -> &mut Self {
            self.mode = m;
            self
        }
        pub async fn open(&self, path: impl AsRef<Path>) -> Result<File, FsErr> {
            self.open_sync(path)
        }
        pub fn open_sync(&self, _path: impl AsRef<Path>) -> Result<File, FsErr> {
            let e = env();
            e.fs_opens += 1;
            e.fs_open_write = self.write;
            if !e.fs_exists {
                if !self.create {
                    return Err(FsErr);
                }
                e.fs_exists = true;
                e.fs_len = 0;
                e.fs_create_mode = self.mode;
                e.fs_created = true;
            } else if self.truncate && self.write {
                e.fs_len = 0;
            }
            Ok(File { pos: if self.append { e.fs_len } else { 0 }, writable: self.write })
        }
    }
    pub struct File {
        pos: usize,
        writable: bool,
    }
    impl File {
        pub async fn open(_path: impl AsRef<Path>) -> Result<File, FsErr> {
            if env().fs_exists {
                Ok(File { pos: 0, writable: false })
            } else {
                Err(FsErr)
            }
        }
        pub async fn create(path: impl AsRef<Path>) -> Result<File, FsErr> {
            Self::create_sync(path)
        }
        pub fn create_sync(_path: impl AsRef<Path>) -> Result<File, FsErr> {
            let e = env();
            if !e.fs_exists {
                e.fs_created = true;
                e.fs_create_mode = 0o666;
            }
            e.fs_exists = true;
            e.fs_len = 0;
            Ok(File { pos: 0, writable: true })
        }
        pub async fn write_all(&mut self, src: &[u8]) -> Result<(), FsErr> {
            self.write_all_sync(src)
        }
        pub fn write_all_sync(&mut self, src: &[u8]) -> Result<(), FsErr> {
            let e = env();
            if !self.writable {
                return Err(FsErr);
            }
            let mut i = 0;
            while i < src.len() {
                if self.pos >= CAP {
                    return Err(FsErr);
                }
                e.fs_data[self.pos] = src[i];
                self.pos += 1;
                i += 1;
            }
            if self.pos > e.fs_len {
                e.fs_len = self.pos;
            }
            Ok(())
        }
        pub async fn read_to_end(&mut self, buf: &mut Vec<u8>) -> Result<usize, FsErr> {
            let e = env();
            let mut n = 0;
            while self.pos < e.fs_len {
                buf.push(e.fs_data[self.pos]);
                self.pos += 1;
                n += 1;
            }
            Ok(n)
        }
    }
}

fn write_slice(fm: &FileManager, file_type: FileType, path: PathBuf, data: &[u8]) -> Result<(), Error> {
VERIF_WRITE_SLICE
	Ok(())
}

// FT: 0 = account, 1 = private key, 2 = certificate
fn slice_one<const FT: u8>() {
    let e = env();
    // arbitrary previous state of the file: absent, or 0..=3 bytes
    e.fs_exists = kani::any();
    let old_len: usize = kani::any();
    kani::assume(old_len <= 3);
    e.fs_len = if e.fs_exists { old_len } else { 0 };
    e.fs_data = kani::any();
    let existed = e.fs_exists;
    let newd: [u8; 3] = kani::any();
    let new_len: usize = kani::any();
    kani::assume(new_len <= 3);
    let pk_mode: u32 = kani::any();
    let crt_mode: u32 = kani::any();
    let fm = mk_fm(pk_mode, crt_mode);
    let ft = match FT {
        0 => FileType::Account,
        1 => FileType::PrivateKey,
        _ => FileType::Certificate,
    };
    let r = write_slice(&fm, ft, PathBuf::new(), &newd[..new_len]);
    let e = env();
    assert!(r.is_ok(), "the model file system accepts every open/write of <= 3 bytes");
    assert!(e.fs_opens == 1 && e.fs_open_write, "C02: exactly one open, for writing");
    assert!(e.fs_exists && e.fs_len == new_len, "C02: the file does not hold exactly the new content (residue of older, longer content)");
    let mut i = 0;
    while i < 3 {
        if i < new_len {
            assert!(e.fs_data[i] == newd[i], "C02: written bytes differ from the data");
        }
        i += 1;
    }
    if !existed {
        let want = match FT {
            0 => 0o600,
            1 => pk_mode,
            _ => crt_mode,
        };
        assert!(e.fs_created && e.fs_create_mode == want, "C13: file created with the wrong mode for its type");
    }
    assert!((nix_st().chown_calls == 1) == (FT != 0), "C13: ownership is set for key and certificate files only");
    core::mem::forget(r);
    core::mem::forget(fm);
}

macro_rules! s_inst {
    ($n:ident, $ft:expr) => {
        #[kani::proof]
        #[kani::stub(std::hash::RandomState::new, rs_stub)]
        #[kani::stub(alloc::fmt::format, crate::verif_env::fmt_stub)]
        #[kani::unwind(2)]
        fn $n() {
            slice_one::<$ft>();
        }
    };
}
s_inst!(c02_slice_account, 0);
s_inst!(c02_slice_private_key, 1);
s_inst!(c02_slice_certificate, 2);

#[kani::proof]
#[kani::stub(std::hash::RandomState::new, rs_stub)]
#[kani::stub(alloc::fmt::format, crate::verif_env::fmt_stub)]
#[kani::unwind(2)]
fn c02_slice_witness() {
    let e = env();
    e.fs_exists = kani::any();
    e.fs_len = if e.fs_exists { 3 } else { 0 };
    let fm = mk_fm(0o600, 0o644);
    let newd = [7u8, 8u8];
    let r = write_slice(&fm, FileType::Certificate, PathBuf::new(), &newd[..]);
    kani::cover!(r.is_ok() && env().fs_created, "created");
    kani::cover!(r.is_ok() && !env().fs_created, "edited");
    core::mem::forget(r);
    core::mem::forget(fm);
}
