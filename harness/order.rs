// C01: the newOrder payload lists exactly the configured identifiers (type, value, order, count).
// Appended to acmed/src/acme_proto/structs/order.rs.
use crate::verif_env::rs_stub;
use std::collections::HashMap;

fn any_type() -> IdentifierType {
    if kani::any() {
        IdentifierType::Dns
    } else {
        IdentifierType::Ip
    }
}
fn name1(b: u8) -> String {
    unsafe { String::from_utf8_unchecked(vec![b]) }
}
fn gen_id(t: IdentifierType, b: u8) -> identifier::Identifier {
    identifier::Identifier { id_type: t, value: name1(b), challenge: crate::acme_proto::Challenge::Http01, env: HashMap::new() }
}

fn new_order_n<const N: usize>() {
    let mut types = [false; N];
    let mut vals = [0u8; N];
    let mut ids = Vec::with_capacity(N);
    let mut i = 0;
    while i < N {
        let t = any_type();
        let b: u8 = kani::any();
        kani::assume(b >= b'a' && b <= b'z');
        types[i] = t == IdentifierType::Dns;
        vals[i] = b;
        ids.push(gen_id(t, b));
        i += 1;
    }
    let o = NewOrder::new(&ids);
    assert!(o.identifiers.len() == N, "C01: newOrder does not list exactly the configured identifiers");
    assert!(o.not_before.is_none() && o.not_after.is_none());
    let mut i = 0;
    while i < N {
        assert!((o.identifiers[i].id_type == IdentifierType::Dns) == types[i], "C01: identifier type changed in newOrder");
        assert!(o.identifiers[i].value.len() == 1 && o.identifiers[i].value.as_bytes()[0] == vals[i], "C01: identifier value or order changed in newOrder");
        i += 1;
    }
    core::mem::forget(o);
    core::mem::forget(ids);
}

#[kani::proof]
#[kani::stub(std::hash::RandomState::new, rs_stub)]
#[kani::unwind(2)]
fn c01_new_order_1() {
    new_order_n::<1>();
}
#[kani::proof]
#[kani::stub(std::hash::RandomState::new, rs_stub)]
#[kani::unwind(2)]
fn c01_new_order_3() {
    new_order_n::<3>();
}

// a name and its own wildcard next to each other are two identifiers: both must be ordered
#[kani::proof]
#[kani::stub(std::hash::RandomState::new, rs_stub)]
#[kani::unwind(2)]
fn c01_new_order_name_and_wildcard() {
    let wild_first: bool = kani::any();
    let a = identifier::Identifier { id_type: IdentifierType::Dns, value: String::from("a"), challenge: crate::acme_proto::Challenge::Http01, env: HashMap::new() };
    let w = identifier::Identifier { id_type: IdentifierType::Dns, value: String::from("*.a"), challenge: crate::acme_proto::Challenge::Dns01, env: HashMap::new() };
    let ids = if wild_first { vec![w, a] } else { vec![a, w] };
    let o = NewOrder::new(&ids);
    assert!(o.identifiers.len() == 2, "C01: newOrder dropped an identifier (a name and its wildcard are distinct identifiers)");
    let l0 = o.identifiers[0].value.len();
    let l1 = o.identifiers[1].value.len();
    assert!(if wild_first { l0 == 3 && l1 == 1 } else { l0 == 1 && l1 == 3 }, "C01: identifier order or wildcard prefix changed in newOrder");
    core::mem::forget(o);
    core::mem::forget(ids);
}
