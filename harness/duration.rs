// C19 (a): time periods -- no crash for any period string, accepted exactly per the documented
// grammar ([0-9]+[smhdw])+ and equal to the exact sum of their parts.
// Appended to acmed/src/duration.rs as a child module (private access to the parser parts).

fn unit_chr(i: u8) -> u8 {
    match i {
        0 => b's',
        1 => b'm',
        2 => b'h',
        3 => b'd',
        _ => b'w',
    }
}
fn unit_mult(c: u8) -> u128 {
    match c {
        b's' => 1,
        b'm' => 60,
        b'h' => 3_600,
        b'd' => 86_400,
        _ => 604_800,
    }
}

/// Fills buf[off..off+nd] with symbolic decimal digits and buf[off+nd] with a symbolic unit;
/// returns (exact value of the number, unit byte). `ND` is the maximal number of digits.
fn sym_part<const ND: usize>(buf: &mut [u8], off: usize, nd: usize) -> (u128, u8) {
    let mut v: u128 = 0;
    let mut i = 0;
    while i < ND {
        let d: u8 = kani::any();
        kani::assume(d < 10);
        if i < nd {
            buf[off + i] = b'0' + d;
            v = v * 10 + d as u128;
        }
        i += 1;
    }
    let u: u8 = kani::any();
    kani::assume(u < 5);
    let uc = unit_chr(u);
    buf[off + nd] = uc;
    (v, uc)
}


// One part, parser part only (get_duration_part is private: reached as a child module).
#[kani::proof]
#[kani::unwind(23)]
fn c19_dur_part() {
    let mut buf = [b'0'; 21];
    let nd: usize = kani::any();
    kani::assume(nd >= 1 && nd <= 20);
    let (v, uc) = sym_part::<20>(&mut buf, 0, nd);
    let s = unsafe { core::str::from_utf8_unchecked(&buf[..nd + 1]) };
    let r = get_duration_part(s);
    let exact = v * unit_mult(uc);
    match &r {
        Ok((rest, d)) => {
            assert!(rest.len() == 0, "part not consumed entirely");
            assert!(exact <= u64::MAX as u128, "part accepted although it does not fit");
            assert!(d.as_secs() as u128 == exact && d.subsec_nanos() == 0, "part differs from number * unit");
        }
        Err(_) => {
            assert!(v > u64::MAX as u128 || exact > u64::MAX as u128, "well-formed part that fits was rejected");
        }
    }
    core::mem::forget(r);
}

// Two parts "<n1 digits><u1><n2 digits><u2>": the sum. Digits: n1, n2 in 1..=ND.
fn two_parts<const ND: usize, const LEN: usize>() {
    let mut buf = [b'0'; LEN];
    let n1: usize = kani::any();
    let n2: usize = kani::any();
    kani::assume(n1 >= 1 && n1 <= ND && n2 >= 1 && n2 <= ND);
    let (v1, u1) = sym_part::<ND>(&mut buf, 0, n1);
    let (v2, u2) = sym_part::<ND>(&mut buf, n1 + 1, n2);
    let s = unsafe { core::str::from_utf8_unchecked(&buf[..n1 + n2 + 2]) };
    let r = parse_duration(s);
    let e1 = v1 * unit_mult(u1);
    let e2 = v2 * unit_mult(u2);
    let exact = e1 + e2;
    match r {
        Ok(d) => {
            assert!(exact <= u64::MAX as u128, "period accepted although its sum does not fit");
            assert!(d.as_secs() as u128 == exact && d.subsec_nanos() == 0, "period differs from the sum of its parts");
        }
        Err(_) => {
            assert!(exact > u64::MAX as u128 || v1 > u64::MAX as u128 || v2 > u64::MAX as u128, "well-formed period that fits was rejected");
        }
    }
    core::mem::forget(r);
}

#[kani::proof]
#[kani::stub(alloc::fmt::format, crate::verif_env::fmt_stub)]
#[kani::unwind(9)]
fn c19_dur_two_parts_small() {
    two_parts::<2, 6>();
}

// Grammar: every string of 0..=N bytes over the alphabet [0-9 s m h d w x ' '] is accepted iff it
// matches ([0-9]+[smhdw])+ ; the reference recogniser below is independent of nom.
fn ref_parse(b: &[u8]) -> Option<u128> {
    let mut i = 0;
    let mut total: u128 = 0;
    let mut parts = 0;
    while i < b.len() {
        let mut nb: u128 = 0;
        let mut nd = 0;
        while i < b.len() && b[i] >= b'0' && b[i] <= b'9' {
            nb = nb * 10 + (b[i] - b'0') as u128;
            nd += 1;
            i += 1;
        }
        if nd == 0 || i >= b.len() {
            return None;
        }
        let c = b[i];
        if !(c == b's' || c == b'm' || c == b'h' || c == b'd' || c == b'w') {
            return None;
        }
        total += nb * unit_mult(c);
        parts += 1;
        i += 1;
    }
    if parts == 0 {
        None
    } else {
        Some(total)
    }
}

fn grammar<const N: usize>() {
    const ALPHA: [u8; 9] = [b'0', b'1', b'9', b's', b'm', b'h', b'w', b'x', b' '];
    let mut buf = [0u8; N];
    let n: usize = kani::any();
    kani::assume(n <= N);
    let mut i = 0;
    while i < N {
        let k: usize = kani::any();
        kani::assume(k < ALPHA.len());
        buf[i] = ALPHA[k];
        i += 1;
    }
    let s = unsafe { core::str::from_utf8_unchecked(&buf[..n]) };
    let r = parse_duration(s);
    let expect = ref_parse(&buf[..n]);
    match (&r, expect) {
        (Ok(d), Some(e)) => assert!(d.as_secs() as u128 == e && d.subsec_nanos() == 0, "value differs from the reference parser"),
        (Err(_), None) => {}
        (Ok(_), None) => assert!(false, "string outside the documented grammar was accepted"),
        (Err(_), Some(_)) => assert!(false, "string inside the documented grammar was rejected"),
    }
    core::mem::forget(r);
}

#[kani::proof]
#[kani::stub(alloc::fmt::format, crate::verif_env::fmt_stub)]
#[kani::unwind(6)]
fn c19_dur_grammar3() {
    grammar::<3>();
}

#[kani::proof]
#[kani::stub(alloc::fmt::format, crate::verif_env::fmt_stub)]
#[kani::unwind(7)]
fn c19_dur_grammar4() {
    grammar::<4>();
}

#[kani::proof]
#[kani::stub(alloc::fmt::format, crate::verif_env::fmt_stub)]
#[kani::unwind(9)]
fn c19_dur_grammar6() {
    grammar::<6>();
}

// reachability witnesses (separate light harness): both verdicts of the parser are reachable
#[kani::proof]
#[kani::stub(alloc::fmt::format, crate::verif_env::fmt_stub)]
#[kani::unwind(5)]
fn c19_dur_witness() {
    let mut buf = [b'0'; 3];
    let (_v, _u) = sym_part::<2>(&mut buf, 0, 2);
    let flip: bool = kani::any();
    if flip {
        buf[2] = b'x';
    }
    let s = unsafe { core::str::from_utf8_unchecked(&buf[..3]) };
    let r = parse_duration(s);
    kani::cover!(r.is_ok(), "a well-formed period is accepted");
    kani::cover!(r.is_err(), "a malformed period is rejected");
    core::mem::forget(r);
}

// Sum overflow through the public entry point: long *concrete* digit strings (symbolic execution
// runs them by constant propagation) with symbolic units; the arithmetic of the fold itself is
// decided for every pair of durations by c19_dur_fold_slice below.
#[kani::proof]
#[kani::stub(alloc::fmt::format, crate::verif_env::fmt_stub)]
#[kani::unwind(24)]
fn c19_dur_sum_overflow_concrete() {
    // 18446744073709551615 s + 1 unit  -> does not fit: must be rejected, not panic
    let mut buf = *b"18446744073709551615s1s";
    let u: u8 = kani::any();
    kani::assume(u < 5);
    buf[22] = unit_chr(u);
    let s = unsafe { core::str::from_utf8_unchecked(&buf[..]) };
    let r = parse_duration(s);
    assert!(r.is_err(), "a period whose sum exceeds 64-bit seconds was accepted");
    core::mem::forget(r);
}

#[kani::proof]
#[kani::stub(alloc::fmt::format, crate::verif_env::fmt_stub)]
#[kani::unwind(24)]
fn c19_dur_sum_max_concrete() {
    // 18446744073709551614 s + 1 s == u64::MAX seconds: fits exactly, must be accepted
    let buf = *b"18446744073709551614s1s";
    let s = unsafe { core::str::from_utf8_unchecked(&buf[..]) };
    let r = parse_duration(s);
    match &r {
        Ok(d) => assert!(d.as_secs() == u64::MAX && d.subsec_nanos() == 0),
        Err(_) => assert!(false, "a period equal to u64::MAX seconds was rejected"),
    }
    core::mem::forget(r);
}

// Source slice (DESIGN 2.5): the initialiser and the folding closure of get_duration, pasted
// verbatim from /repo by the generator (VERIF_SLICE_* placeholders), applied to ANY two parts.
trait AccLike: Sized {
    fn to_opt(self) -> Option<Duration>;
}
impl AccLike for Duration {
    fn to_opt(self) -> Option<Duration> {
        Some(self)
    }
}
impl AccLike for Option<Duration> {
    fn to_opt(self) -> Option<Duration> {
        self
    }
}
#[kani::proof]
#[kani::unwind(2)]
fn c19_dur_fold_slice() {
    let init = VERIF_SLICE_FOLD_INIT;
    let f = VERIF_SLICE_FOLD_STEP;
    let s1: u64 = kani::any();
    let s2: u64 = kani::any();
    let a0 = init();
    let a1 = f(a0, Duration::from_secs(s1));
    let a2 = f(a1, Duration::from_secs(s2));
    let exact = s1 as u128 + s2 as u128;
    match AccLike::to_opt(a2) {
        Some(d) => {
            assert!(exact <= u64::MAX as u128, "sum of the parts does not fit but a value was produced");
            assert!(d.as_secs() as u128 == exact && d.subsec_nanos() == 0, "fold result differs from the sum of the parts");
        }
        None => assert!(exact > u64::MAX as u128, "sum of the parts fits but was dropped"),
    }
}

// Quick variants of c19_dur_part: 1..=20 digits of which the three leading ones are symbolic and
// the rest are '0' (every order of magnitude around the overflow boundary), one harness per unit
// (a concrete unit makes the multiplier a constant for the solver).
fn part_lead3(uc: u8, mult: u128) {
    let mut buf = [b'0'; 21];
    let nd: usize = kani::any();
    kani::assume(nd >= 1 && nd <= 20);
    let mut v: u128 = 0;
    let mut i = 0;
    while i < 20 {
        let mut d: u8 = 0;
        if i < 3 {
            d = kani::any();
            kani::assume(d < 10);
        }
        if i < nd {
            buf[i] = b'0' + d;
            v = v * 10 + d as u128;
        }
        i += 1;
    }
    buf[nd] = uc;
    let s = unsafe { core::str::from_utf8_unchecked(&buf[..nd + 1]) };
    let r = get_duration_part(s);
    let exact = v * mult;
    match &r {
        Ok((rest, d)) => {
            assert!(rest.len() == 0, "part not consumed entirely");
            assert!(exact <= u64::MAX as u128, "part accepted although it does not fit");
            assert!(d.as_secs() as u128 == exact && d.subsec_nanos() == 0, "part differs from number * unit");
        }
        Err(_) => {
            assert!(v > u64::MAX as u128 || exact > u64::MAX as u128, "well-formed part that fits was rejected");
        }
    }
    core::mem::forget(r);
}
macro_rules! lead3 {
    ($n:ident, $c:expr, $m:expr) => {
        #[kani::proof]
        #[kani::unwind(23)]
        fn $n() {
            part_lead3($c, $m);
        }
    };
}
lead3!(c19_dur_part_lead3_s, b's', 1);
lead3!(c19_dur_part_lead3_m, b'm', 60);
lead3!(c19_dur_part_lead3_h, b'h', 3_600);
lead3!(c19_dur_part_lead3_d, b'd', 86_400);
lead3!(c19_dur_part_lead3_w, b'w', 604_800);
