// Appended to acme_common/src/crypto/openssl_certificate.rs (child module: sees inner_cert).
// Environment: openssl model (env/openssl_env): Asn1Time::diff returns (days, secs) as given.
use openssl::asn1::Asn1Time as MAsn1Time;
use openssl::x509::GeneralName;

fn cert_with(days: i32, secs: i32, san: Option<Vec<GeneralName>>) -> X509Certificate {
    X509Certificate { inner_cert: X509 { pubkey_kid: 1, not_after: MAsn1Time { days, secs }, san, exts: vec![] } }
}

// C06: expires_in is the true remaining lifetime, clamped at 0, for every (days, secs) OpenSSL's
// ASN1_TIME_diff can return: |secs| < 86400, days and secs of the same sign.
#[kani::proof]
#[kani::unwind(2)]
fn c06_expires_in_exact() {
    let days: i32 = kani::any();
    let secs: i32 = kani::any();
    kani::assume(secs > -86_400 && secs < 86_400);
    kani::assume((days >= 0 && secs >= 0) || (days <= 0 && secs <= 0));
    let c = cert_with(days, secs, None);
    let r = c.expires_in();
    let exact: i128 = days as i128 * 86_400 + secs as i128;
    match &r {
        Ok(d) => {
            let want: u128 = if exact > 0 { exact as u128 } else { 0 };
            assert!(d.as_secs() as u128 == want && d.subsec_nanos() == 0, "C06: expires_in differs from the true remaining lifetime");
        }
        Err(_) => assert!(false, "C06: expires_in failed although the time difference is available"),
    }
    core::mem::forget(r);
    core::mem::forget(c);
}
