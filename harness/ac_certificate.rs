// Appended to acme_common/src/crypto/openssl_certificate.rs (child module: sees inner_cert).
// Environment: openssl model (env/openssl_env): Asn1Time::diff returns (days, secs) as given.
use openssl::asn1::Asn1Time as MAsn1Time;
use openssl::x509::GeneralName;

fn cert_with(days: i32, secs: i32, san: Option<Vec<GeneralName>>) -> X509Certificate {
    X509Certificate { inner_cert: X509 { pubkey_kid: 1, not_after: MAsn1Time { days, secs }, san, exts: vec![] } }
}

// C06: expires_in is the true remaining lifetime, clamped at 0, for every (days, secs) OpenSSL's
// ASN1_TIME_diff can return: |secs| < 86400, days and secs of the same sign.
#[kani::proof]
#[kani::unwind(2)]
fn c06_expires_in_exact() {
    let days: i32 = kani::any();
    let secs: i32 = kani::any();
    kani::assume(secs > -86_400 && secs < 86_400);
    kani::assume((days >= 0 && secs >= 0) || (days <= 0 && secs <= 0));
    let c = cert_with(days, secs, None);
    let r = c.expires_in();
    let exact: i128 = days as i128 * 86_400 + secs as i128;
    match &r {
        Ok(d) => {
            let want: u128 = if exact > 0 { exact as u128 } else { 0 };
            assert!(d.as_secs() as u128 == want && d.subsec_nanos() == 0, "C06: expires_in differs from the true remaining lifetime");
        }
        Err(_) => assert!(false, "C06: expires_in failed although the time difference is available"),
    }
    core::mem::forget(r);
    core::mem::forget(c);
}

// C01: the CSR built by Csr::new carries exactly the given names as dNSName / iPAddress entries (in
// order), the configured subject attribute, the configured digest (no pre-hash digest for EdDSA keys),
// and is built on and self-signed with the SAME key. OpenSSL's builders are records in the model.
use openssl::pkey::{Id as MId, PKey as MPKey};
use openssl::x509::X509Extension as MExt;
use std::marker::PhantomData;

fn kp_of(k: u8, kid: u32) -> KeyPair {
    let (kt, id, param) = match k {
        0 => (KeyType::Rsa2048, MId::RSA, 256),
        1 => (KeyType::EcdsaP256, MId::EC, 415),
        2 => (KeyType::EcdsaP384, MId::EC, 715),
        3 => (KeyType::Ed25519, MId::ED25519, 0),
        _ => (KeyType::Ed448, MId::ED448, 0),
    };
    KeyPair { key_type: kt, inner_key: MPKey { id, param, kid, _t: PhantomData } }
}
fn s1(b: u8) -> String {
    unsafe { String::from_utf8_unchecked(vec![b]) }
}

fn csr_record<const WITH_ATTR: bool>() {
    let k: u8 = kani::any();
    kani::assume(k < 5);
    let kid: u32 = kani::any();
    kani::assume(kid != 0);
    let kp = kp_of(k, kid);
    let d: u8 = kani::any();
    kani::assume(d < 3);
    let digest = match d {
        0 => HashFunction::Sha256,
        1 => HashFunction::Sha384,
        _ => HashFunction::Sha512,
    };
    let b0: u8 = kani::any();
    let b1: u8 = kani::any();
    let b2: u8 = kani::any();
    kani::assume(b0 >= b'a' && b0 <= b'z' && b1 >= b'a' && b1 <= b'z' && b2 >= b'0' && b2 <= b'9');
    let domains = [s1(b0), s1(b1)];
    let ips = [s1(b2)];
    let mut attrs: HashMap<SubjectAttribute, String> = HashMap::new();
    if WITH_ATTR {
        attrs.insert(SubjectAttribute::OrganizationName, String::from("o"));
    }
    let r = Csr::new(&kp, digest, &domains, &ips, &attrs);
    match &r {
        Ok(csr) => {
            let q = &csr.inner_csr;
            assert!(q.pubkey_kid == kid, "C01: CSR public key is not the given key pair's");
            assert!(q.signed_by == kid, "C01: CSR is not self-signed with the same key");
            let want_md = if k >= 3 { 0 } else { d + 1 };
            assert!(q.digest == want_md, "C01: CSR digest is not the configured one (none for EdDSA)");
            assert!(q.exts.len() == 1, "C01: exactly one extension (subjectAltName) expected");
            match &q.exts[0] {
                MExt::San { dns, ip } => {
                    assert!(dns.len() == 2 && ip.len() == 1, "C01: SAN entry count differs from the configured names");
                    assert!(dns[0].as_bytes()[0] == b0 && dns[1].as_bytes()[0] == b1 && ip[0].as_bytes()[0] == b2, "C01: SAN entries differ from the configured names / order");
                }
                _ => assert!(false, "C01: extension is not a subjectAltName"),
            }
            if WITH_ATTR {
                assert!(q.subject.entries.len() == 1 && q.subject.entries[0].0 == 17 && q.subject.entries[0].1.len() == 1, "C01: configured subject attribute missing or altered");
            } else {
                assert!(q.subject.entries.is_empty(), "C01: subject attributes invented");
            }
        }
        Err(_) => assert!(false, "C01: CSR construction failed"),
    }
    core::mem::forget(r);
    core::mem::forget(attrs);
    core::mem::forget(domains);
    core::mem::forget(ips);
    core::mem::forget(kp);
}

#[kani::proof]
#[kani::stub(std::hash::RandomState::new, crate::verif_env::rs_stub)]
#[kani::unwind(2)]
fn c01_csr_record_no_attr() {
    csr_record::<false>();
}
#[kani::proof]
#[kani::stub(std::hash::RandomState::new, crate::verif_env::rs_stub)]
#[kani::unwind(2)]
fn c01_csr_record_one_attr() {
    csr_record::<true>();
}
