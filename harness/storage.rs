// C02 (exact content, no residue), C13 (mode at creation, owner), C10 (file hook bracketing):
// storage::write_file on the file model. Appended to acmed/src/storage.rs.
use crate::verif_env::{block_on, env, rs_stub};
use nix::st as nix_st;

/// stands in for `hooks::call(fm, &fm.hooks, &hook_data, <type>).await?` in write_file
pub fn hook_event(hook_type: u8) -> Result<(), Error> {
    let e = env();
    kani::assume(e.hook_ev_n < 6);
    e.hook_ev[e.hook_ev_n] = hook_type + 1;
    e.hook_ev_n += 1;
    if kani::any() {
        e.hook_failed = true;
        return Err("hook failed".into());
    }
    Ok(())
}

fn mk_fm(pk_mode: u32, crt_mode: u32) -> FileManager {
    FileManager {
        account_name: String::new(),
        account_directory: String::new(),
        crt_name: String::new(),
        crt_name_format: String::new(),
        crt_directory: String::new(),
        crt_key_type: String::new(),
        cert_file_mode: crt_mode,
        cert_file_owner: None,
        cert_file_group: None,
        cert_file_ext: None,
        pk_file_mode: pk_mode,
        pk_file_owner: None,
        pk_file_group: None,
        pk_file_ext: None,
        hooks: vec![],
        env: HashMap::new(),
    }
}

// FT: 0 = account, 1 = private key, 2 = certificate
fn write_one<const FT: u8>() {
    let e = env();
    // arbitrary previous state of the file: absent, or 0..=3 bytes
    e.fs_exists = kani::any();
    let old_len: usize = kani::any();
    kani::assume(old_len <= 3);
    e.fs_len = if e.fs_exists { old_len } else { 0 };
    e.fs_data = kani::any();
    let existed = e.fs_exists;
    // new content: 0..=3 symbolic bytes
    let newd: [u8; 3] = kani::any();
    let new_len: usize = kani::any();
    kani::assume(new_len <= 3);
    let pk_mode: u32 = kani::any();
    let crt_mode: u32 = kani::any();
    let fm = mk_fm(pk_mode, crt_mode);
    let ft = match FT {
        0 => FileType::Account,
        1 => FileType::PrivateKey,
        _ => FileType::Certificate,
    };
    let r = block_on(write_file(&fm, ft, &newd[..new_len]));
    let e = env();
    // hook bracketing (HookType discriminants + 1: FilePreCreate=1, FilePostCreate=2, FilePreEdit=3, FilePostEdit=4)
    let (pre, post) = if existed { (3u8, 4u8) } else { (1u8, 2u8) };
    assert!(e.hook_ev_n >= 1 && e.hook_ev[0] == pre, "C10: a write must start with file-pre-create (new file) / file-pre-edit (existing file)");
    if r.is_ok() {
        assert!(e.hook_ev_n == 2 && e.hook_ev[1] == post, "C10: a successful write must end with the matching post hook, and run no other file hook");
        // C02: exactly the new content
        assert!(e.fs_exists && e.fs_len == new_len, "C02: the file does not hold exactly the new content (residue of older, longer content?)");
        let mut i = 0;
        while i < 3 {
            if i < new_len {
                assert!(e.fs_data[i] == newd[i], "C02: written bytes differ from the data");
            }
            i += 1;
        }
        // C13: mode at creation
        if !existed {
            let want = match FT {
                0 => 0o600,
                1 => pk_mode,
                _ => crt_mode,
            };
            assert!(e.fs_created && e.fs_create_mode == want, "C13: file created with the wrong mode for its type");
        }
        assert!((nix_st().chown_calls == 1) == (FT != 0), "C13: ownership is set for key and certificate files only");
    } else {
        assert!(e.hook_failed || e.hook_ev_n <= 2, "C10: hooks after a failure");
        if e.hook_ev_n == 1 {
            assert!(e.fs_opens == 0, "C10: the file was opened although the pre hook failed");
        }
    }
    core::mem::forget(r);
    core::mem::forget(fm);
}

macro_rules! w_inst {
    ($n:ident, $ft:expr) => {
        #[kani::proof]
        #[kani::stub(std::hash::RandomState::new, rs_stub)]
        #[kani::stub(alloc::fmt::format, crate::verif_env::fmt_stub)]
        #[kani::unwind(2)]
        fn $n() {
            write_one::<$ft>();
        }
    };
}
w_inst!(c02_write_account, 0);
w_inst!(c02_write_private_key, 1);
w_inst!(c02_write_certificate, 2);

// owner: numeric ids are passed to chown as given; names are looked up; an unknown name leaves the id unset
#[kani::proof]
#[kani::stub(std::hash::RandomState::new, rs_stub)]
#[kani::stub(alloc::fmt::format, crate::verif_env::fmt_stub)]
#[kani::unwind(2)]
fn c13_owner_numeric_and_named() {
    let d: u8 = kani::any();
    kani::assume(d <= 9);
    let mut fm = mk_fm(0o600, 0o644);
    fm.pk_file_owner = Some(unsafe { String::from_utf8_unchecked(vec![b'0' + d]) });
    fm.pk_file_group = Some(String::from("g"));
    let gid: u32 = kani::any();
    let known: bool = kani::any();
    nix_st().known_group = if known { Some(gid) } else { None };
    nix_st().known_user = Some(77);
    let r = set_owner(&fm, Path::new(""), FileType::PrivateKey);
    assert!(r.is_ok());
    let s = nix_st();
    assert!(s.chown_calls == 1 && s.chown_uid == Some(d as u32), "C13: numeric pk_file_user must be given to chown as is");
    assert!(s.chown_gid == if known { Some(gid) } else { None }, "C13: named pk_file_group must be looked up");
    // certificate settings must not leak into the key file and vice versa
    nix_st().chown_calls = 0;
    let r2 = set_owner(&fm, Path::new(""), FileType::Certificate);
    assert!(r2.is_ok() && nix_st().chown_uid.is_none() && nix_st().chown_gid.is_none(), "C13: key-file owner settings applied to the certificate file");
    core::mem::forget(fm);
}

#[kani::proof]
#[kani::stub(std::hash::RandomState::new, rs_stub)]
#[kani::stub(alloc::fmt::format, crate::verif_env::fmt_stub)]
#[kani::unwind(2)]
fn dbg_write_min() {
    let e = env();
    e.fs_exists = true;
    e.fs_len = 2;
    let fm = mk_fm(0o600, 0o644);
    let newd = [7u8];
    let r = block_on(write_file(&fm, FileType::Certificate, &newd[..]));
    let e = env();
    if r.is_ok() {
        assert!(e.fs_len == 1, "C02: residue");
    }
    core::mem::forget(r);
    core::mem::forget(fm);
}

// C06: certificate_files_exists is true iff BOTH the private-key file and the certificate file exist
// (and their paths can be built); account_files_exists iff the account file exists.
#[kani::proof]
#[kani::stub(std::hash::RandomState::new, rs_stub)]
#[kani::stub(alloc::fmt::format, crate::verif_env::fmt_stub)]
#[kani::unwind(2)]
fn c06_files_exist_all_not_any() {
    let e = env();
    e.fs_type_exists = kani::any();
    e.fs_path_error = kani::any();
    let fm = mk_fm(0o600, 0o644);
    let both = certificate_files_exists(&fm);
    let e = env();
    let want = e.fs_type_exists[1] && !e.fs_path_error[1] && e.fs_type_exists[2] && !e.fs_path_error[2];
    assert!(both == want, "C06: a certificate counts as installed only if BOTH the key file and the certificate file exist");
    let acc = account_files_exists(&fm);
    assert!(acc == (e.fs_type_exists[0] && !e.fs_path_error[0]), "C11/C06: account file existence");
    core::mem::forget(fm);
}
