// C11 (narrow): the update statements of Account::synchronize (after the change flags are computed),
// pasted verbatim from /repo on every run; `self` -> `acc`, `f(endpoint, self).await?` -> `block_on(f(endpoint, acc))?`.
// Needs harness/account.rs (mk_fm) in the same module.
fn sync_slice(acc: &mut Account, endpoint: &mut Endpoint, contacts_changed: bool, key_changed: bool) -> Result<(), Error> {
VERIF_SYNC_SLICE
	Ok(())
}

fn slice_fixture() -> (Account, Endpoint, u32, u32) {
    let cur = AccountKey { creation_date: SystemTime::UNIX_EPOCH, key: gen_keypair(KT::EcdsaP256).unwrap(), signature_algorithm: JwsSignatureAlgorithm::Es256 };
    let old = AccountKey { creation_date: SystemTime::UNIX_EPOCH, key: gen_keypair(KT::EcdsaP256).unwrap(), signature_algorithm: JwsSignatureAlgorithm::Es256 };
    let (ck, ok) = (cur.key.inner_key.kid as u32, old.key.inner_key.kid as u32);
    let account = Account { name: String::new(), endpoints: HashMap::new(), contacts: vec![], current_key: cur, past_keys: vec![old], file_manager: mk_fm(), external_account: None };
    let endpoint = Endpoint::new("e", "", true, &[], &[]).unwrap();
    (account, endpoint, ck, ok)
}

#[kani::proof]
#[kani::stub(std::hash::RandomState::new, rs_stub)]
#[kani::stub(alloc::fmt::format, crate::verif_env::fmt_stub)]
#[kani::unwind(2)]
fn c11_slice_update_order() {
    let (mut account, mut endpoint, ck, ok) = slice_fixture();
    assert!(ck != ok);
    let key_changed: bool = kani::any();
    let contacts_changed: bool = kani::any();
    // the CA holds the key whose fingerprint is on record
    env().ca_key_kid = if key_changed { ok } else { ck };
    env().acc_ev_n = 0;
    let r = sync_slice(&mut account, &mut endpoint, contacts_changed, key_changed);
    let e = env();
    let n = e.acc_ev_n;
    let mut i = 0;
    let (mut n_ct, mut n_key) = (0, 0);
    while i < 3 {
        if i < n {
            assert!(e.acc_ev[i] != 1, "C11: account created although an account URL is on record and the binding is unchanged");
            if e.acc_ev[i] == 2 {
                n_ct += 1;
                assert!(e.acc_ev_key_ok[i], "C11: contacts update signed by a key the CA does not hold yet (key roll-over must come first): the CA rejects it and the account is never brought in step");
            }
            if e.acc_ev[i] == 3 {
                n_key += 1;
            }
        }
        i += 1;
    }
    assert!(n <= 2 && n_ct <= 1 && n_key <= 1, "C11: an update was sent twice");
    if r.is_ok() {
        assert!(!e.acc_failed, "C11: a failed request was swallowed");
        assert!((n_ct == 1) == contacts_changed && (n_key == 1) == key_changed, "C11: exactly one update per changed item, none otherwise");
        assert!(e.ca_key_kid == ck, "C11: after success the CA holds the current key");
    } else {
        assert!(e.acc_failed, "C11: Err although every request succeeded");
    }
    core::mem::forget(r);
    core::mem::forget(account);
    core::mem::forget(endpoint);
}

#[kani::proof]
#[kani::stub(std::hash::RandomState::new, rs_stub)]
#[kani::stub(alloc::fmt::format, crate::verif_env::fmt_stub)]
#[kani::unwind(2)]
fn c11_slice_witness() {
    let (mut account, mut endpoint, ck, ok) = slice_fixture();
    env().ca_key_kid = ok;
    env().acc_ev_n = 0;
    let r = sync_slice(&mut account, &mut endpoint, true, true);
    kani::cover!(r.is_ok() && env().acc_ev_n == 2, "both updates sent and accepted");
    kani::cover!(r.is_err(), "a request failed");
    core::mem::forget(r);
    core::mem::forget(account);
    core::mem::forget(endpoint);
}
