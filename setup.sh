#!/bin/bash
# Build the dependency cache used by every check (offline). Safe to re-run; checks work (slower)
# without it. Nothing under /tmp is needed afterwards.
set -u
cd "$(dirname "$0")"
export CARGO_NET_OFFLINE=true
python3 - <<'PY'
import os, sys, subprocess, shutil, tempfile
sys.path.insert(0, os.getcwd())
from vlib import driver
driver.warm_cache()
PY
