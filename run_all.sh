#!/bin/bash
# convenience: run every claimed check of a tier sequentially (evidence is rewritten by each)
cd "$(dirname "$0")"
tier=${1:-quick}
for p in $(python3 -c "import json; print(' '.join(c['property_id'] for c in json.load(open('MANIFEST.json'))['checks']))"); do
  s=$(date +%s)
  ./check $p --tier $tier > /tmp/verif_runall_$p.txt 2>&1
  rc=$?
  echo "$p rc=$rc $(( $(date +%s) - s ))s"
done
