#!/usr/bin/env python3
"""Regenerates MANIFEST.json from the table below (keeps it valid and consistent)."""
import json, os
HERE = os.path.dirname(os.path.abspath(__file__))
BMC = "bounded model checking of the real Rust source (Kani/CBMC symbolic execution + SAT)"
CLAIMS = {
 'C01': ("Solver verdicts over the real NewOrder::new (count, order, type and value of every identifier, 1 and 3 symbolic identifiers) and the real Csr::new against an OpenSSL model that records what the builders were given: CSR key == signing key == given key, digest as configured (none for EdDSA), SAN entries exactly the given names in order, subject attribute kept.",
         "OpenSSL builders are records (DER/self-signature/SAN encoding trusted); IDNA and IP canonicalisation, JSON serialisation and the CSR-key/key-file link of the flow are outside (see evidence).", "5 C01"),
 'C02': ("Narrow: on a verbatim source slice of storage::write_file (the open / write / chown statements) the solver shows, for every previous file state (absent or 0..3 arbitrary bytes), every new content of 0..3 bytes and each of the three file types, that exactly one open for writing happens and the file afterwards holds exactly the new bytes - no residue of older, longer content.",
         "Only the every-write-leaves-exactly-the-new-content half of C02; the identity 'bytes written == PEM chain returned by the CA / key of the CSR' needs request_certificate (did not converge) and is outside. File system = POSIX-like single-file model with a plain error type; slice de-sugared to one task; contents > 3 bytes outside (no length-dependent code on the path).", "5 C02"),
 'C04': ("Solver verdicts on the key/algorithm binding of every JWS signature (7x9 table, sign() dispatch: one signature by the given key over the whole input with the right digest), on the fixed-width R||S encoding for ECDSA components of every minimal length (P-256/384/521) and on nonce hygiene of http::get (a nonce is stored only if the server issued a well-formed one).",
         "Narrow claim: the JWS envelope (protected header, payload encoding) and nonce freshness across POST retries are outside (serde_json/base64 did not converge; CBMC 6.11 crashes on http::post). OpenSSL model and reqwest model are listed in the evidence.", "4 C04"),
 'C05': ("For a name and its wildcard configured with any of the 3x3 challenge assignments in either order, and for each single form, the solver shows the real lookup picks the entry matching the authorization's wildcard flag; unknown names are rejected.",
         "Only the identifier/challenge selection is decided; hook ordering in request_certificate and the proof strings are outside (flow / format! did not converge).", "5 C05"),
 'C06': ("For every (days, secs) pair OpenSSL's time difference can return (full i32 range of days) the solver shows expires_in is the exact remaining lifetime clamped at 0, with no overflow; renew_in/schedule_renewal arithmetic per DESIGN.md C06.",
         "Trusted: OpenSSL ASN.1 time parsing/diff (modelled by contract), rustc->Kani->CBMC translation. Bounds and cuts are listed in the evidence file of each run.", "5 C06"),
 'C07': ("Narrow: on a verbatim source slice of main_event_loop::renew_certificate (whole body, de-sugared to one task) the solver shows, for every outcome of scheduling (<= 2 errors, then any u32 delay), of the request and of the post-operation hooks, that one attempt makes exactly one request, runs the post-operation hooks exactly once with is_success == request Ok and status 'success' iff Ok, returns even when the hooks fail, and sleeps >= 60 s after each scheduling error.",
         "One attempt only. What request_certificate does inside, the pause between a FAILED attempt and the next one (the main loop re-queues at once and schedule_renewal answers ZERO when no certificate exists: observed by reading, not decided), panics/aborts and non-interference between certificates are outside.", "5 C07"),
 'C08': ("For every ASCII problem-type string up to 48 bytes the solver shows that the real classification retries exactly the seven recoverable ACME types; the retry loop of http::post is covered per DESIGN.md C08 as far as its harness converged.",
         "serde_json parsing of the problem document and reqwest are trusted; non-ASCII / longer type strings are outside the bound.", "5 C08"),
 'C09': ("Inductive single step of the real RateLimit::block_until_allowed from an arbitrary log: window count and no-forgetting invariants hold for every log content, period 1..20 s and clock reading (n<=3, <=2 limits); with the induction argument in DESIGN.md this bounds every window of every history. Liveness: a permitted request returns after one sleep.",
         "Whole-second clock; sleep/Instant::now replaced by over-approximating models; n<=3, periods<=20 s, <=2 limits; http.rs call sites covered only as far as DESIGN.md C09 says.", "5 C09"),
 'C11': ("Narrow: on a verbatim source slice of Account::synchronize (the conditional updates that follow the change flags) the solver shows, for all 4 patterns of contacts changed / key changed and every failure choice of the requests, that no account is created, exactly one update per changed item is sent, a contacts update is only ever signed by the key the CA holds (key roll-over first), Ok iff no request failed, and after Ok the CA holds the current key.",
         "Only the update decision/order of one synchronize step with an account URL on record and an unchanged binding; the three request functions are contract models; fingerprint computation, registration-once across restarts, persistence of the account file and the request bodies are outside.", "5 C11"),
 'C13': ("For every u32 mode and every presence pattern the solver shows the mode/owner getters return the configured value, else 0600 (keys, accounts) / 0644 (certificates) / none.",
         "The configuration getters, storage::set_owner on the nix model and (source slice of write_file, shared with C02) the mode given to open() per file type; umask and the FileManager literals of MainEventLoop::new are outside.", "5 C13"),
 'C14': ("For each of the 14 Option-typed [global] options and every presence pattern in including/included file the solver shows the later file wins on a verbatim slice of read_cnf; sections are concatenated; renew_delay / random_early_renew / file_name_format / directory take the most specific level for every presence pattern; unresolved endpoint / rate-limit references are rejected.",
         "Source slice of read_cnf (inline merge code), parse_duration replaced by a tag model in this unit, glob/include-graph/file I/O and the [global] env table outside (see evidence 'outside_bounds').", "5 C14"),
 'C15': ("Solver verdicts over the real key code against an OpenSSL model whose big numbers have symbolic length: the 7x9 key/algorithm table is exactly the 7 legal pairs; sign() dispatches to the right primitive/digest and signs once with the given key; ECDSA JWS signatures have exactly 2*size bytes for r, s of ANY minimal length (P-256/384/521); the padding macro right-aligns and zero-pads for every size <= 5 and length.",
         "OpenSSL itself (key generation, real signatures, PEM/DER) is the trusted base; JWK JSON member sets and the EdDSA public-key string surgery did not converge and are outside.", "5 C15"),
 'C18': ("For all 8 presence combinations of the three root-certificate sources (file names symbolic) the solver shows Endpoint::to_generic hands the HTTP layer exactly command line ++ endpoint ++ global, in order.",
         "Chain and host-name validation by reqwest/native-tls/OpenSSL is the trusted base; file reading and the client construction in http.rs are outside unless DESIGN.md C18 says otherwise.", "5 C18"),
 'C19': ("For every period string inside the stated shapes the solver shows no panic/overflow and acceptance exactly per the documented grammar with the exact sum; zero/huge rate limits neither divide by zero nor refuse the first request forever; hook-group recursion bounded.",
         "TOML/serde layer, include cycles and file I/O are outside (not_applicable parts listed in DESIGN.md C19). fmt::format stubbed where message text is irrelevant.", "5 C19"),
}
NA = {
 'C03': "request_certificate as a whole did not reach a solver verdict within reach of Kani/CBMC (async state machine + heap): no sound check, see DESIGN.md section 4",
 'C10': "hooks::call/call_single on the async-process model and Config::get_hook are encoded (harness/hooks.rs, harness/config.rs) but all runs ended in timeout or solver out-of-memory (HashSet<HookType> membership, Hook clones): no verdict, no claim",
 'C12': "concurrency: Kani/CBMC has no model of interleaved tasks; the single-task lock-discipline substitute depends on the flow harness, which did not converge",
 'C16': "tacd's observable behaviour is a TLS handshake produced by OpenSSL through FFI over a socket; no Rust-side logic to execute symbolically",
 'C17': "process survival under connection histories (threads, sockets, OpenSSL accept, panic=abort): outside what Kani/CBMC can model",
 'C20': "the subject is a TOML file of shell commands run as external processes against a validating CA: no code of the repository to execute symbolically",
}
def main():
    checks = []
    for pid in sorted(CLAIMS):
        text, note, ref = CLAIMS[pid]
        checks.append({
            "property_id": pid,
            "quick_cmd": "./check %s --tier quick" % pid,
            "thorough_cmd": "./check %s --tier thorough" % pid,
            "evidence_file": "evidence/%s.json" % pid,
            "replay_cmd_template": "./check %s --replay {path}" % pid,
            "engine": "kani-bmc",
            "level_claimed": {"category": "model_checking", "text": text, "design_ref": "DESIGN.md section 4, " + ref.split()[-1]},
            "level_note": note,
            "technique": BMC,
        })
    m = {
        "version": 1,
        "setup_cmd": "./setup.sh",
        "hooks": {
            "guard": "cfg(kani)",
            "enable": "none needed: harnesses are appended to a scratch copy of /repo regenerated on every run and compiled by the Kani compiler (which sets cfg(kani)); /repo carries no verification hooks",
            "baseline_off_cmd": "cd /repo && cargo test --workspace --no-fail-fast --offline",
            "source_commits": [],
            "add_only": True,
        },
        "engines": [{"name": "kani-bmc", "path": "/verif/check", "serves_properties": sorted(CLAIMS),
                     "kind_free_text": "bounded symbolic execution of the real Rust source with Kani 0.68 / CBMC 6.11 / CaDiCaL: scratch copy of /repo + harness child modules + function-level cuts + environment-model crates; counterexamples replayed natively (Kani concrete playback) before a VIOLATION is printed"}],
        "checks": checks,
        "not_applicable": [{"property_id": k, "reason": v} for k, v in sorted(NA.items())],
        "notes": "Exit 2 = inconclusive (timeout, OOM, cannot encode, vacuous, counterexample not reproduced): never a pass, never a VIOLATION. See DESIGN.md.",
    }
    json.dump(m, open(os.path.join(HERE, 'MANIFEST.json'), 'w'), indent=1)
if __name__ == '__main__':
    main()
