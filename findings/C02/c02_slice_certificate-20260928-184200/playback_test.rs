#[test]
fn kani_concrete_playback_c02_slice_certificate_11314603331722515711() {
    let concrete_vals: Vec<Vec<u8>> = vec![
        // 1
        vec![1],
        // 1ul
        vec![1, 0, 0, 0, 0, 0, 0, 0],
        // 255
        vec![255],
        // 255
        vec![255],
        // 255
        vec![255],
        // 255
        vec![255],
        // 0
        vec![0],
        // 0
        vec![0],
        // 255
        vec![255],
        // 0ul
        vec![0, 0, 0, 0, 0, 0, 0, 0],
        // 4294967295
        vec![255, 255, 255, 255],
        // 4294967295
        vec![255, 255, 255, 255],
    ];
    kani::concrete_playback_run(concrete_vals, c02_slice_certificate);
}
