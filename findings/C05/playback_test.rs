/// Test generated for harness `certificate::verif_h::c05_lookup_plain_then_wildcard` 
///
/// Check for `assertion`: ""C05: a wildcard authorization must use the wildcard entry's challenge""
///
/// # Warning
///
/// Concrete playback tests combined with stubs or contracts is highly
/// experimental, and subject to change.
///
/// The original harness has stubs which are not applied to this test.
/// This may cause a mismatch of non-deterministic values if the stub
/// creates any non-deterministic value.
/// The execution path may also differ, which can be used to refine the stub
/// logic.

#[test]
fn kani_concrete_playback_c05_lookup_plain_then_wildcard_14917152007831842337() {
    let concrete_vals: Vec<Vec<u8>> = vec![
        // 2
        vec![2],
        // 2
        vec![2],
        // 1
        vec![1],
    ];
    kani::concrete_playback_run(concrete_vals, c05_lookup_plain_then_wildcard);
}
