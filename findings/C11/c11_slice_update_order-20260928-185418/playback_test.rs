#[test]
fn kani_concrete_playback_c11_slice_update_order_821151937521278010() {
    let concrete_vals: Vec<Vec<u8>> = vec![
        // 1
        vec![1],
        // 1
        vec![1],
        // 1
        vec![1],
    ];
    kani::concrete_playback_run(concrete_vals, c11_slice_update_order);
}
