//! Environment model of the subset of `reqwest` used by acmed/src/http.rs.
//! A request is "sent" to a scripted server: at every send the solver chooses the outcome
//! (transport error | 2xx | non-2xx), whether a Replay-Nonce header is attached (and whether it is
//! well formed) and which problem document a non-2xx answer carries. The server issues pairwise
//! distinct nonces (RFC 8555 6.5): the nonce attached to response k is the one-letter string
//! ('A' + k). Everything the client did is recorded in NET for the harness's oracle.
#![allow(dead_code, unused_variables)]
use std::fmt;
use std::io;

pub const MAX_SENDS: usize = 14;

pub struct NetState {
    pub magic: u64,
    /// number of requests handed to send()
    pub sends: usize,
    /// rate-limiter passes observed (incremented by the cut of acmed::http::rate_limit)
    pub limiter_passes: usize,
    /// per send: 0 = GET, 1 = POST
    pub method: [u8; MAX_SENDS],
    /// per send: first byte of the request body (the harness's data builder puts the nonce there), 0 if none
    pub body0: [u8; MAX_SENDS],
    /// per send: length of the body
    pub body_len: [usize; MAX_SENDS],
    /// per send: number of root certificates the sending client was built with
    pub roots: [u32; MAX_SENDS],
    /// per send: outcome chosen by the solver: 0 transport error, 1 = 2xx, 2 = non-2xx
    pub outcome: [u8; MAX_SENDS],
    /// per send: nonce header: 0 absent, 1 valid fresh nonce, 2 malformed nonce
    pub nonce_kind: [u8; MAX_SENDS],
    /// per send (non-2xx): problem document kind, see problem_body()
    pub problem: [u8; MAX_SENDS],
    /// sends that violated "a rate-limiter pass precedes every send"
    pub unlimited_sends: u32,
    /// certificates parsed by Certificate::from_pem / roots given to builders
    pub certs_parsed: u32,
    /// restrict the script (set by harnesses): when false GET responses never carry a nonce
    pub nonce_on_get: bool,
    /// when true every POST response carries a valid nonce (RFC 8555 6.5 server)
    pub nonce_on_every_post: bool,
}
pub static mut NET: NetState = NetState {
    magic: 0x4E37_C0DE_ACED_0004,
    sends: 0,
    limiter_passes: 0,
    method: [0; MAX_SENDS],
    body0: [0; MAX_SENDS],
    body_len: [0; MAX_SENDS],
    roots: [0; MAX_SENDS],
    outcome: [0; MAX_SENDS],
    nonce_kind: [0; MAX_SENDS],
    problem: [0; MAX_SENDS],
    unlimited_sends: 0,
    certs_parsed: 0,
    nonce_on_get: true,
    nonce_on_every_post: true,
};
pub fn st() -> &'static mut NetState {
    unsafe { &mut *core::ptr::addr_of_mut!(NET) }
}

#[cfg(kani)]
fn nd_u8() -> u8 {
    kani::any()
}
#[cfg(not(kani))]
fn nd_u8() -> u8 {
    1
}

/// problem document kinds: the body's first byte tells the (cut) JSON layer what it "parses" to
pub fn problem_body(kind: u8) -> &'static str {
    match kind {
        0 => "N", // type badNonce            (recoverable)
        1 => "S", // type serverInternal      (recoverable)
        2 => "R", // type rateLimited         (recoverable)
        3 => "U", // type unauthorized        (not recoverable)
        4 => "A", // type accountDoesNotExist (not recoverable)
        5 => "X", // unknown type             (not recoverable)
        6 => "-", // problem document without type
        _ => "?", // not JSON at all
    }
}
pub fn problem_recoverable(kind: u8) -> bool {
    kind <= 2
}

pub mod header {
    use std::str::FromStr;
    #[derive(Clone, Copy, Debug, PartialEq)]
    pub struct HeaderName(pub &'static str);
    pub const ACCEPT: HeaderName = HeaderName("accept");
    pub const ACCEPT_LANGUAGE: HeaderName = HeaderName("accept-language");
    pub const CONTENT_TYPE: HeaderName = HeaderName("content-type");
    pub const USER_AGENT: HeaderName = HeaderName("user-agent");

    /// Header values own no heap memory (a value whose presence is symbolic would make every clone
    /// allocate a symbolic size): they are references to static strings.
    #[derive(Clone, Copy, Debug)]
    pub struct HeaderValue {
        pub s: &'static str,
        pub visible_ascii: bool,
    }
    #[derive(Debug)]
    pub struct ToStrError;
    #[derive(Debug)]
    pub struct InvalidHeaderValue;
    impl HeaderValue {
        pub fn to_str(&self) -> Result<&str, ToStrError> {
            if self.visible_ascii {
                Ok(self.s)
            } else {
                Err(ToStrError)
            }
        }
    }
    impl FromStr for HeaderValue {
        type Err = InvalidHeaderValue;
        fn from_str(s: &str) -> Result<Self, InvalidHeaderValue> {
            Ok(HeaderValue { s: "", visible_ascii: true })
        }
    }
    pub trait AsHeaderName {
        fn name(&self) -> &str;
    }
    impl AsHeaderName for &str {
        fn name(&self) -> &str {
            self
        }
    }
    impl AsHeaderName for HeaderName {
        fn name(&self) -> &str {
            self.0
        }
    }
    /// only the two headers acmed reads are kept: Replay-Nonce and Location
    #[derive(Clone, Copy, Debug, Default)]
    pub struct HeaderMap {
        pub replay_nonce: Option<HeaderValue>,
        pub location: Option<HeaderValue>,
    }
    impl HeaderMap {
        pub fn new() -> Self {
            HeaderMap { replay_nonce: None, location: None }
        }
        pub fn append(&mut self, k: HeaderName, v: HeaderValue) -> bool {
            true
        }
        pub fn get<K: AsHeaderName>(&self, k: K) -> Option<&HeaderValue> {
            let n = k.name();
            if n.len() == 12 {
                // "Replay-Nonce"
                self.replay_nonce.as_ref()
            } else if n.len() == 8 {
                // "Location"
                self.location.as_ref()
            } else {
                None
            }
        }
    }
}
use header::{HeaderMap, HeaderValue};

#[derive(Debug)]
pub struct Error;
impl fmt::Display for Error {
    fn fmt(&self, f: &mut fmt::Formatter) -> fmt::Result {
        write!(f, "transport error")
    }
}
impl std::error::Error for Error {}

pub struct Certificate;
impl Certificate {
    pub fn from_pem(d: &[u8]) -> io::Result<Certificate> {
        st().certs_parsed += 1;
        Ok(Certificate)
    }
}

pub struct ClientBuilder {
    roots: u32,
}
impl ClientBuilder {
    pub fn new() -> Self {
        ClientBuilder { roots: 0 }
    }
    pub fn default_headers(self, h: HeaderMap) -> Self {
        self
    }
    pub fn add_root_certificate(mut self, c: Certificate) -> Self {
        self.roots += 1;
        self
    }
    pub fn build(self) -> io::Result<Client> {
        Ok(Client { roots: self.roots })
    }
}
pub struct Client {
    roots: u32,
}
impl Client {
    pub fn get(&self, url: &str) -> RequestBuilder {
        RequestBuilder { method: 0, body0: 0, body_len: 0, roots: self.roots }
    }
    pub fn post(&self, url: &str) -> RequestBuilder {
        RequestBuilder { method: 1, body0: 0, body_len: 0, roots: self.roots }
    }
}
pub struct RequestBuilder {
    method: u8,
    body0: u8,
    body_len: usize,
    roots: u32,
}
impl RequestBuilder {
    pub fn header<K, V>(self, k: K, v: V) -> Self {
        self
    }
    pub fn body(mut self, b: String) -> Self {
        self.body_len = b.len();
        self.body0 = if b.is_empty() { 0 } else { b.as_bytes()[0] };
        self
    }
    pub async fn send(self) -> Result<Response, Error> {
        let s = st();
        let k = s.sends;
        #[cfg(kani)]
        kani::assume(k < MAX_SENDS);
        s.method[k] = self.method;
        s.body0[k] = self.body0;
        s.body_len[k] = self.body_len;
        s.roots[k] = self.roots;
        s.sends = k + 1;
        if s.limiter_passes < s.sends {
            s.unlimited_sends += 1;
        }
        let outcome = nd_u8() % 3;
        s.outcome[k] = outcome;
        if outcome == 0 {
            return Err(Error);
        }
        let mut nk = nd_u8() % 3;
        if self.method == 0 && !s.nonce_on_get {
            nk = 0;
        }
        if self.method == 1 && s.nonce_on_every_post {
            nk = 1;
        }
        s.nonce_kind[k] = nk;
        let mut headers = HeaderMap::new();
        if nk == 1 {
            headers.replay_nonce = Some(HeaderValue { s: NONCES[k], visible_ascii: true });
        } else if nk == 2 {
            headers.replay_nonce = Some(HeaderValue { s: "!", visible_ascii: true });
        }
        if outcome == 1 {
            headers.location = Some(HeaderValue { s: "L", visible_ascii: true });
            Ok(Response { status: StatusCode(200), headers, body: "J" })
        } else {
            let p = nd_u8() % 8;
            s.problem[k] = p;
            Ok(Response { status: StatusCode(400), headers, body: problem_body(p) })
        }
    }
}

#[derive(Clone, Copy, Debug, PartialEq)]
pub struct StatusCode(pub u16);
impl StatusCode {
    pub fn is_success(&self) -> bool {
        self.0 >= 200 && self.0 < 300
    }
    pub fn as_u16(&self) -> u16 {
        self.0
    }
    pub fn as_str(&self) -> &str {
        ""
    }
}
pub const NONCES: [&str; MAX_SENDS] = ["A", "B", "C", "D", "E", "F", "G", "H", "I", "J", "K", "L", "M", "N"];
pub struct Response {
    status: StatusCode,
    headers: HeaderMap,
    /// every body of the model has exactly one byte (concrete allocation size in text())
    body: &'static str,
}
impl Response {
    pub fn headers(&self) -> &HeaderMap {
        &self.headers
    }
    pub fn status(&self) -> StatusCode {
        self.status
    }
    pub async fn text(self) -> io::Result<String> {
        let mut v: Vec<u8> = Vec::with_capacity(1);
        v.push(self.body.as_bytes()[0]);
        Ok(unsafe { String::from_utf8_unchecked(v) })
    }
}
