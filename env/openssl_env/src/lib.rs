//! Environment model of the subset of the `openssl` crate API used by acme_common.
//! Objects are plain data; "cryptography" is symbolic: a key is an identity (kid),
//! a signature/hash is a tagged record of what was signed/hashed and by which key.
#![allow(dead_code, unused_variables, non_upper_case_globals, clippy::all)]

/// ALL mutable model state in one static with a unique bit pattern (Kani 0.68 was observed to merge
/// a `static mut X: u32 = 0` with an immutable constant of the same bits).
pub struct OsslState {
    pub magic: u64,
    pub next_kid: u32,
    pub last_req_kid: u32,
    // last ECDSA signature as produced by the model (minimal big-endian r and s)
    pub sig_r: [u8; 66],
    pub sig_r_len: usize,
    pub sig_s: [u8; 66],
    pub sig_s_len: usize,
    pub sig_key_kid: u32,
    pub sig_input_len: usize,
    // last Signer use
    pub sign_kid: u32,
    pub sign_md: u8,
    pub sign_len: usize,
    pub sign_count: u32,
    // knobs set by harnesses: lengths of the next ECDSA r / s (0 = any length 1..=size)
    pub force_r_len: usize,
    pub force_s_len: usize,
    // symbolic public key material handed out (EC x / y, RSA n / e), as minimal vectors
    pub ec_x: [u8; 66],
    pub ec_x_len: usize,
    pub ec_y: [u8; 66],
    pub ec_y_len: usize,
    pub rsa_n: [u8; 4],
    pub rsa_n_len: usize,
    pub rsa_e: [u8; 4],
    pub rsa_e_len: usize,
    // raw EdDSA public key bytes (32 or 57 used)
    pub ed_pub: [u8; 57],
    // lengths of the inputs handed to acme_common::b64_encode when it is cut (harness observability)
    pub b64_in_len: [usize; 4],
    pub b64_calls: usize,
    // JSON members seen by the stub of serde_json::Map::insert: value of "alg" (first 5 bytes) and member count
    pub jwk_alg: [u8; 5],
    pub jwk_alg_len: usize,
    pub jwk_members: usize,
}
pub static mut OSSL: OsslState = OsslState {
    magic: 0x0551_C0DE_ACED_0002,
    next_kid: 1,
    last_req_kid: 0,
    sig_r: [0; 66],
    sig_r_len: 0,
    sig_s: [0; 66],
    sig_s_len: 0,
    sig_key_kid: 0,
    sig_input_len: 0,
    sign_kid: 0,
    sign_md: 0,
    sign_len: 0,
    sign_count: 0,
    force_r_len: 0,
    force_s_len: 0,
    ec_x: [0; 66],
    ec_x_len: 0,
    ec_y: [0; 66],
    ec_y_len: 0,
    rsa_n: [0; 4],
    rsa_n_len: 0,
    rsa_e: [0; 4],
    rsa_e_len: 0,
    ed_pub: [0; 57],
    b64_in_len: [0; 4],
    b64_calls: 0,
    jwk_alg: [0; 5],
    jwk_alg_len: 0,
    jwk_members: 0,
};
pub fn st() -> &'static mut OsslState {
    unsafe { &mut *core::ptr::addr_of_mut!(OSSL) }
}

/// A Vec<u8> with a concrete capacity (72) and a possibly symbolic length <= 66: the allocation
/// size stays concrete (a symbolic malloc size makes CBMC run out of memory).
pub fn vec_cap72(src: &[u8; 66], len: usize) -> Vec<u8> {
    let mut v: Vec<u8> = Vec::with_capacity(72);
    unsafe {
        core::ptr::copy_nonoverlapping(src.as_ptr(), v.as_mut_ptr(), 66);
        v.set_len(len);
    }
    v
}
#[cfg(kani)]
fn sym_minimal(size: usize, forced: usize) -> ([u8; 66], usize) {
    let a: [u8; 66] = kani::any();
    let len: usize = kani::any();
    kani::assume(len >= 1 && len <= size);
    if forced != 0 {
        kani::assume(len == forced);
    }
    kani::assume(a[0] != 0); // BN_bn2bin is minimal: no leading zero byte
    (a, len)
}
#[cfg(not(kani))]
fn sym_minimal(size: usize, forced: usize) -> ([u8; 66], usize) {
    let mut a = [0u8; 66];
    a[0] = 1;
    (a, if forced != 0 { forced } else { size })
}

#[cfg(kani)]
fn nd_u8() -> u8 { kani::any() }
#[cfg(not(kani))]
fn nd_u8() -> u8 { 0 }
#[cfg(kani)]
fn nd_bool() -> bool { kani::any() }
#[cfg(not(kani))]
fn nd_bool() -> bool { false }

pub mod error {
    use std::fmt;
    #[derive(Debug, Clone)]
    pub struct ErrorStack;
    impl fmt::Display for ErrorStack {
        fn fmt(&self, f: &mut fmt::Formatter) -> fmt::Result { write!(f, "openssl error") }
    }
    impl std::error::Error for ErrorStack {}
}
use error::ErrorStack;

pub mod version { pub fn number() -> i64 { 0x3000_0000 } }

pub mod nid {
    #[derive(Clone, Copy, PartialEq, Eq, Debug, Hash)]
    pub struct Nid(pub i32);
    impl Nid {
        pub const X9_62_PRIME256V1: Nid = Nid(415);
        pub const SECP384R1: Nid = Nid(715);
        pub const SECP521R1: Nid = Nid(716);
        pub const COUNTRYNAME: Nid = Nid(14);
        pub const GENERATIONQUALIFIER: Nid = Nid(509);
        pub const GIVENNAME: Nid = Nid(99);
        pub const INITIALS: Nid = Nid(101);
        pub const LOCALITYNAME: Nid = Nid(15);
        pub const NAME: Nid = Nid(173);
        pub const ORGANIZATIONNAME: Nid = Nid(17);
        pub const ORGANIZATIONALUNITNAME: Nid = Nid(18);
        pub const PKCS9_EMAILADDRESS: Nid = Nid(48);
        pub const POSTALADDRESS: Nid = Nid(861);
        pub const POSTALCODE: Nid = Nid(661);
        pub const STATEORPROVINCENAME: Nid = Nid(16);
        pub const STREETADDRESS: Nid = Nid(660);
        pub const SURNAME: Nid = Nid(100);
        pub const TITLE: Nid = Nid(106);
    }
}
use nid::Nid;

pub mod hash {
    #[derive(Clone, Copy, PartialEq, Eq, Debug)]
    pub struct MessageDigest(pub u8);
    impl MessageDigest {
        pub fn null() -> Self { MessageDigest(0) }
        pub fn sha256() -> Self { MessageDigest(1) }
        pub fn sha384() -> Self { MessageDigest(2) }
        pub fn sha512() -> Self { MessageDigest(3) }
    }
}
use hash::MessageDigest;

pub mod sha {
    // symbolic hash: (length, xor, sum) folded in a fixed-size block; injective enough for
    // structure checks, NOT a model of SHA-2 collision resistance
    fn fold<const N: usize>(data: &[u8], tag: u8) -> [u8; N] {
        let mut out = [tag; N];
        out[0] = data.len() as u8;
        let mut i = 0;
        while i < data.len() {
            out[1 + (i % (N - 1))] ^= data[i];
            i += 1;
        }
        out
    }
    pub fn sha256(data: &[u8]) -> [u8; 32] { fold::<32>(data, 0x25) }
    pub fn sha384(data: &[u8]) -> [u8; 48] { fold::<48>(data, 0x38) }
    pub fn sha512(data: &[u8]) -> [u8; 64] { fold::<64>(data, 0x51) }
}

pub mod bn {
    use super::*;
    #[derive(Clone, Debug, PartialEq)]
    pub struct BigNum { pub bytes: Vec<u8> }
    pub type BigNumRef = BigNum;
    pub struct BigNumContext;
    impl BigNumContext { pub fn new() -> Result<Self, ErrorStack> { Ok(BigNumContext) } }
    #[derive(Clone, Copy)]
    pub struct MsbOption(pub i32);
    impl MsbOption { pub const MAYBE_ZERO: MsbOption = MsbOption(-1); }
    impl BigNum {
        pub fn new() -> Result<Self, ErrorStack> { Ok(BigNum { bytes: Vec::with_capacity(72) }) }
        /// BN_bn2bin: minimal big-endian bytes. Concrete capacity, possibly symbolic length.
        /// (every BigNum of the model owns a 72-byte buffer, so the 66-byte copy stays in bounds)
        pub fn to_vec(&self) -> Vec<u8> {
            let n = self.bytes.len();
            assert!(n <= 66 && self.bytes.capacity() >= 66);
            let mut v: Vec<u8> = Vec::with_capacity(72);
            unsafe {
                core::ptr::copy_nonoverlapping(self.bytes.as_ptr(), v.as_mut_ptr(), 66);
                v.set_len(n);
            }
            v
        }
        /// BN_bn2binpad: exactly `len` bytes, value right-aligned, error if it does not fit.
        pub fn to_vec_padded(&self, len: i32) -> Result<Vec<u8>, ErrorStack> {
            let len = len as usize;
            let n = self.bytes.len();
            if n > len { return Err(ErrorStack); }
            let pad = len - n;
            let mut v = vec![0u8; len];
            let mut i = 0;
            while i < len {
                if i >= pad { v[i] = self.bytes[i - pad]; }
                i += 1;
            }
            Ok(v)
        }
        pub fn rand(&mut self, bits: i32, msb: MsbOption, odd: bool) -> Result<(), ErrorStack> { Ok(()) }
        pub fn to_asn1_integer(&self) -> Result<asn1::Asn1Integer, ErrorStack> { Ok(asn1::Asn1Integer) }
    }
}
use bn::*;

pub mod pkey {
    use super::*;
    use std::marker::PhantomData;
    #[derive(Clone, Copy, PartialEq, Eq, Debug)]
    pub struct Id(pub i32);
    impl Id {
        pub const RSA: Id = Id(6);
        pub const EC: Id = Id(408);
        pub const ED25519: Id = Id(1087);
        pub const ED448: Id = Id(1088);
        pub const HMAC: Id = Id(855);
    }
    #[derive(Clone, Copy, Debug, PartialEq)]
    pub struct Private;
    #[derive(Clone, Copy, Debug, PartialEq)]
    pub struct Public;
    /// key = (algorithm id, parameter: RSA byte size or curve nid, identity)
    #[derive(Clone, Debug, PartialEq)]
    pub struct PKey<T> { pub id: Id, pub param: i32, pub kid: u32, pub _t: PhantomData<T> }
    pub type PKeyRef<T> = PKey<T>;
    pub fn fresh_kid() -> u32 { let s = st(); let k = s.next_kid; s.next_kid += 1; k }
    fn enc(tag: u8, k: &PKey<impl Sized>) -> Vec<u8> {
        let mut v = vec![tag];
        v.extend_from_slice(&k.id.0.to_be_bytes());
        v.extend_from_slice(&k.param.to_be_bytes());
        v.extend_from_slice(&k.kid.to_be_bytes());
        v
    }
    fn dec(tag: u8, d: &[u8]) -> Result<PKey<Private>, ErrorStack> {
        if d.len() != 13 || d[0] != tag { return Err(ErrorStack); }
        Ok(PKey {
            id: Id(i32::from_be_bytes([d[1], d[2], d[3], d[4]])),
            param: i32::from_be_bytes([d[5], d[6], d[7], d[8]]),
            kid: u32::from_be_bytes([d[9], d[10], d[11], d[12]]),
            _t: PhantomData,
        })
    }
    impl PKey<Private> {
        pub fn private_key_from_der(d: &[u8]) -> Result<Self, ErrorStack> { dec(b'D', d) }
        pub fn private_key_from_pem(d: &[u8]) -> Result<Self, ErrorStack> { dec(b'P', d) }
        pub fn hmac(key: &[u8]) -> Result<Self, ErrorStack> {
            Ok(PKey { id: Id::HMAC, param: key.len() as i32, kid: 0, _t: PhantomData })
        }
        pub fn from_rsa(r: rsa::Rsa<Private>) -> Result<Self, ErrorStack> {
            Ok(PKey { id: Id::RSA, param: r.size as i32, kid: r.kid, _t: PhantomData })
        }
        pub fn from_ec_key(k: ec::EcKey<Private>) -> Result<Self, ErrorStack> {
            Ok(PKey { id: Id::EC, param: k.group.nid.0, kid: k.kid, _t: PhantomData })
        }
        pub fn generate_ed25519() -> Result<Self, ErrorStack> {
            Ok(PKey { id: Id::ED25519, param: 0, kid: fresh_kid(), _t: PhantomData })
        }
        pub fn generate_ed448() -> Result<Self, ErrorStack> {
            Ok(PKey { id: Id::ED448, param: 0, kid: fresh_kid(), _t: PhantomData })
        }
    }
    impl<T> PKey<T> {
        pub fn id(&self) -> Id { self.id }
        pub fn rsa(&self) -> Result<rsa::Rsa<T>, ErrorStack> {
            if self.id != Id::RSA { return Err(ErrorStack); }
            let s = st();
            let (n, nl) = sym_minimal(4, 0);
            let (e, el) = sym_minimal(4, 0);
            s.rsa_n = [n[0], n[1], n[2], n[3]]; s.rsa_n_len = nl;
            s.rsa_e = [e[0], e[1], e[2], e[3]]; s.rsa_e_len = el;
            Ok(rsa::Rsa { size: self.param as u32, kid: self.kid, e: BigNum { bytes: vec_cap72(&e, el) }, n: BigNum { bytes: vec_cap72(&n, nl) }, _t: PhantomData })
        }
        pub fn ec_key(&self) -> Result<ec::EcKey<T>, ErrorStack> {
            if self.id != Id::EC { return Err(ErrorStack); }
            Ok(ec::EcKey { group: ec::EcGroup { nid: Nid(self.param) }, kid: self.kid, point: ec::EcPoint { kid: self.kid }, _t: PhantomData })
        }
        pub fn private_key_to_der(&self) -> Result<Vec<u8>, ErrorStack> { Ok(enc(b'D', self)) }
        pub fn private_key_to_pem_pkcs8(&self) -> Result<Vec<u8>, ErrorStack> { Ok(enc(b'P', self)) }
        pub fn public_key_to_pem(&self) -> Result<Vec<u8>, ErrorStack> { Ok(enc(b'Q', self)) }
    }
}
use pkey::*;

pub mod rsa {
    use super::*;
    use std::marker::PhantomData;
    pub struct Rsa<T> { pub size: u32, pub kid: u32, pub e: BigNum, pub n: BigNum, pub _t: PhantomData<T> }
    impl<T> Rsa<T> {
        pub fn size(&self) -> u32 { self.size }
        pub fn e(&self) -> &BigNumRef { &self.e }
        pub fn n(&self) -> &BigNumRef { &self.n }
    }
    impl Rsa<Private> {
        pub fn generate(bits: u32) -> Result<Self, ErrorStack> {
            let kid = fresh_kid();
            Ok(Rsa { size: bits / 8, kid, e: BigNum { bytes: vec![1, 0, 1] }, n: BigNum { bytes: vec![0x80 | (kid as u8)] }, _t: PhantomData })
        }
    }
}

pub mod ec {
    use super::*;
    use std::marker::PhantomData;
    #[derive(Clone, Copy)]
    pub struct Asn1Flag(pub i32);
    impl Asn1Flag { pub const NAMED_CURVE: Asn1Flag = Asn1Flag(1); }
    #[derive(Clone, Debug, PartialEq)]
    pub struct EcGroup { pub nid: Nid }
    pub type EcGroupRef = EcGroup;
    impl EcGroup {
        pub fn from_curve_name(nid: Nid) -> Result<Self, ErrorStack> { Ok(EcGroup { nid }) }
        pub fn set_asn1_flag(&mut self, f: Asn1Flag) {}
        pub fn curve_name(&self) -> Option<Nid> { Some(self.nid) }
    }
    #[derive(Clone, Debug, PartialEq)]
    pub struct EcPoint { pub kid: u32 }
    pub type EcPointRef = EcPoint;
    impl EcPoint {
        pub fn affine_coordinates_gfp(&self, g: &EcGroupRef, x: &mut BigNumRef, y: &mut BigNumRef, ctx: &mut BigNumContext) -> Result<(), ErrorStack> {
            let size = match g.nid { Nid::X9_62_PRIME256V1 => 32, Nid::SECP384R1 => 48, _ => 66 };
            let s = st();
            let (xa, xl) = sym_minimal(size, 0);
            let (ya, yl) = sym_minimal(size, 0);
            s.ec_x = xa; s.ec_x_len = xl; s.ec_y = ya; s.ec_y_len = yl;
            x.bytes = vec_cap72(&xa, xl);
            y.bytes = vec_cap72(&ya, yl);
            Ok(())
        }
    }
    #[derive(Clone, Debug, PartialEq)]
    pub struct EcKey<T> { pub group: EcGroup, pub kid: u32, pub point: EcPoint, pub _t: PhantomData<T> }
    pub type EcKeyRef<T> = EcKey<T>;
    impl<T> AsRef<EcKey<T>> for EcKey<T> { fn as_ref(&self) -> &EcKey<T> { self } }
    impl<T> EcKey<T> {
        pub fn group(&self) -> &EcGroupRef { &self.group }
        pub fn public_key(&self) -> &EcPointRef { &self.point }
    }
    impl EcKey<Private> {
        pub fn generate(g: &EcGroupRef) -> Result<Self, ErrorStack> {
            let kid = fresh_kid();
            Ok(EcKey { group: g.clone(), kid, point: EcPoint { kid }, _t: PhantomData })
        }
    }
}

pub mod ecdsa {
    use super::*;
    pub struct EcdsaSig { pub r: BigNum, pub s: BigNum }
    impl EcdsaSig {
        pub fn sign<T>(data: &[u8], key: &ec::EcKeyRef<T>) -> Result<Self, ErrorStack> {
            let size = match key.group.nid { Nid::X9_62_PRIME256V1 => 32, Nid::SECP384R1 => 48, _ => 66 };
            let s = st();
            let (ra, rl) = sym_minimal(size, s.force_r_len);
            let (sa, sl) = sym_minimal(size, s.force_s_len);
            s.sig_r = ra; s.sig_r_len = rl; s.sig_s = sa; s.sig_s_len = sl;
            s.sig_key_kid = key.kid; s.sig_input_len = data.len();
            Ok(EcdsaSig { r: BigNum { bytes: vec_cap72(&ra, rl) }, s: BigNum { bytes: vec_cap72(&sa, sl) } })
        }
        pub fn r(&self) -> &BigNumRef { &self.r }
        pub fn s(&self) -> &BigNumRef { &self.s }
    }
}

pub mod sign {
    use super::*;
    use std::marker::PhantomData;
    pub struct Signer<'a> { pub kid: u32, pub md: MessageDigest, pub len: usize, _p: PhantomData<&'a ()> }
    impl<'a> Signer<'a> {
        pub fn new<T>(md: MessageDigest, key: &'a PKeyRef<T>) -> Result<Signer<'a>, ErrorStack> {
            Ok(Signer { kid: key.kid, md, len: 0, _p: PhantomData })
        }
        pub fn new_without_digest<T>(key: &'a PKeyRef<T>) -> Result<Signer<'a>, ErrorStack> {
            Ok(Signer { kid: key.kid, md: MessageDigest::null(), len: 0, _p: PhantomData })
        }
        pub fn update(&mut self, d: &[u8]) -> Result<(), ErrorStack> { self.len += d.len(); Ok(()) }
        pub fn sign_to_vec(&self) -> Result<Vec<u8>, ErrorStack> {
            let s = st(); s.sign_kid = self.kid; s.sign_md = self.md.0; s.sign_len = self.len; s.sign_count += 1;
            Ok(vec![self.kid as u8, self.md.0, self.len as u8])
        }
        pub fn sign_oneshot_to_vec(&mut self, d: &[u8]) -> Result<Vec<u8>, ErrorStack> {
            let s = st(); s.sign_kid = self.kid; s.sign_md = 0; s.sign_len = d.len(); s.sign_count += 1;
            Ok(vec![self.kid as u8, 0, d.len() as u8])
        }
    }
}

pub mod asn1 {
    use super::*;
    pub struct Asn1Integer;
    pub type Asn1IntegerRef = Asn1Integer;
    #[derive(Clone, Debug, PartialEq)]
    pub struct Asn1Time { pub days: i32, pub secs: i32 }
    pub type Asn1TimeRef = Asn1Time;
    pub struct TimeDiff { pub days: i32, pub secs: i32 }
    impl Asn1Time {
        pub fn days_from_now(d: u32) -> Result<Self, ErrorStack> { Ok(Asn1Time { days: d as i32, secs: 0 }) }
        pub fn diff(&self, other: &Asn1TimeRef) -> Result<TimeDiff, ErrorStack> {
            Ok(TimeDiff { days: other.days - self.days, secs: other.secs - self.secs })
        }
    }
}
use asn1::*;

pub mod stack {
    use super::*;
    pub struct Stack<T> { pub items: Vec<T> }
    pub type StackRef<T> = Stack<T>;
    impl<T> Stack<T> {
        pub fn new() -> Result<Self, ErrorStack> { Ok(Stack { items: Vec::new() }) }
        pub fn push(&mut self, t: T) -> Result<(), ErrorStack> { self.items.push(t); Ok(()) }
        pub fn iter(&self) -> std::slice::Iter<'_, T> { self.items.iter() }
    }
}
use stack::*;

pub mod x509 {
    use super::*;
    #[derive(Clone, Debug, PartialEq)]
    pub enum GeneralName { Dns(String), Ip(Vec<u8>), Other }
    impl GeneralName {
        pub fn dnsname(&self) -> Option<&str> { if let GeneralName::Dns(s) = self { Some(s) } else { None } }
        pub fn ipaddress(&self) -> Option<&[u8]> { if let GeneralName::Ip(s) = self { Some(s) } else { None } }
    }
    #[derive(Clone, Debug, PartialEq)]
    pub enum X509Extension {
        San { dns: Vec<String>, ip: Vec<String> },
        BasicConstraints,
        Raw { name: String, value: String },
    }
    pub struct X509v3Context;
    #[derive(Clone, Debug, PartialEq, Default)]
    pub struct X509Name { pub entries: Vec<(i32, String)> }
    pub type X509NameRef = X509Name;
    pub struct X509NameBuilder { n: X509Name }
    impl X509NameBuilder {
        pub fn new() -> Result<Self, ErrorStack> { Ok(X509NameBuilder { n: X509Name::default() }) }
        pub fn append_entry_by_nid(&mut self, nid: Nid, v: &str) -> Result<(), ErrorStack> { self.n.entries.push((nid.0, v.to_string())); Ok(()) }
        pub fn append_entry_by_text(&mut self, f: &str, v: &str) -> Result<(), ErrorStack> { self.n.entries.push((-1, v.to_string())); Ok(()) }
        pub fn build(self) -> X509Name { self.n }
    }
    #[derive(Clone, Debug, PartialEq, Default)]
    pub struct X509Req {
        pub pubkey_kid: u32,
        pub subject: X509Name,
        pub exts: Vec<X509Extension>,
        pub signed_by: u32,
        pub digest: u8,
    }
    pub struct X509ReqBuilder { r: X509Req }
    impl X509ReqBuilder {
        pub fn new() -> Result<Self, ErrorStack> { Ok(X509ReqBuilder { r: X509Req::default() }) }
        pub fn set_pubkey<T>(&mut self, k: &PKeyRef<T>) -> Result<(), ErrorStack> { self.r.pubkey_kid = k.kid; Ok(()) }
        pub fn set_subject_name(&mut self, n: &X509NameRef) -> Result<(), ErrorStack> { self.r.subject = n.clone(); Ok(()) }
        pub fn x509v3_context<'a>(&'a self, conf: Option<&'a ()>) -> X509v3Context { X509v3Context }
        pub fn add_extensions(&mut self, s: &StackRef<X509Extension>) -> Result<(), ErrorStack> { self.r.exts.extend(s.items.iter().cloned()); Ok(()) }
        pub fn sign<T>(&mut self, k: &PKeyRef<T>, md: MessageDigest) -> Result<(), ErrorStack> { self.r.signed_by = k.kid; self.r.digest = md.0; Ok(()) }
        pub fn build(self) -> X509Req { st().last_req_kid = self.r.pubkey_kid; self.r }
    }
    impl X509Req {
        pub fn to_der(&self) -> Result<Vec<u8>, ErrorStack> { Ok(vec![b'R', self.pubkey_kid as u8]) }
        pub fn to_pem(&self) -> Result<Vec<u8>, ErrorStack> { Ok(vec![b'r', self.pubkey_kid as u8]) }
    }
    #[derive(Clone, Debug, PartialEq)]
    pub struct X509 { pub pubkey_kid: u32, pub not_after: Asn1Time, pub san: Option<Vec<GeneralName>>, pub exts: Vec<X509Extension> }
    impl X509 {
        /// Model encoding of a certificate "PEM": b'C', key id, notAfter-now as (days i32 LE, secs i32 LE),
        /// number of SAN entries n, then n x (kind: 1 = dNSName / 2 = iPAddress v4, one value byte).
        /// A 2-byte form (b'C', key id) is a certificate without SAN whose notAfter is now.
        pub fn from_pem(d: &[u8]) -> Result<Self, ErrorStack> {
            if d.len() < 2 || d[0] != b'C' { return Err(ErrorStack); }
            if d.len() < 11 {
                return Ok(X509 { pubkey_kid: d[1] as u32, not_after: Asn1Time { days: 0, secs: 0 }, san: None, exts: vec![] });
            }
            let days = i32::from_le_bytes([d[2], d[3], d[4], d[5]]);
            let secs = i32::from_le_bytes([d[6], d[7], d[8], d[9]]);
            let n = d[10] as usize;
            if d.len() < 11 + 2 * n { return Err(ErrorStack); }
            let mut san = Vec::with_capacity(n);
            let mut i = 0;
            while i < n {
                let kind = d[11 + 2 * i];
                let val = d[12 + 2 * i];
                if kind == 1 {
                    san.push(GeneralName::Dns(unsafe { String::from_utf8_unchecked(vec![val]) }));
                } else if kind == 2 {
                    san.push(GeneralName::Ip(vec![val, val, val, val]));
                } else {
                    san.push(GeneralName::Other);
                }
                i += 1;
            }
            Ok(X509 { pubkey_kid: d[1] as u32, not_after: Asn1Time { days, secs }, san: Some(san), exts: vec![] })
        }
        pub fn not_after(&self) -> &Asn1TimeRef { &self.not_after }
        pub fn subject_alt_names(&self) -> Option<Stack<GeneralName>> { self.san.clone().map(|items| Stack { items }) }
    }
    pub struct X509Builder { c: X509 }
    impl X509Builder {
        pub fn new() -> Result<Self, ErrorStack> { Ok(X509Builder { c: X509 { pubkey_kid: 0, not_after: Asn1Time { days: 0, secs: 0 }, san: None, exts: vec![] } }) }
        pub fn set_version(&mut self, v: i32) -> Result<(), ErrorStack> { Ok(()) }
        pub fn set_serial_number(&mut self, s: &Asn1IntegerRef) -> Result<(), ErrorStack> { Ok(()) }
        pub fn set_subject_name(&mut self, n: &X509NameRef) -> Result<(), ErrorStack> { Ok(()) }
        pub fn set_issuer_name(&mut self, n: &X509NameRef) -> Result<(), ErrorStack> { Ok(()) }
        pub fn set_pubkey<T>(&mut self, k: &PKeyRef<T>) -> Result<(), ErrorStack> { self.c.pubkey_kid = k.kid; Ok(()) }
        pub fn set_not_before(&mut self, t: &Asn1TimeRef) -> Result<(), ErrorStack> { Ok(()) }
        pub fn set_not_after(&mut self, t: &Asn1TimeRef) -> Result<(), ErrorStack> { self.c.not_after = t.clone(); Ok(()) }
        pub fn append_extension(&mut self, e: X509Extension) -> Result<(), ErrorStack> { self.c.exts.push(e); Ok(()) }
        pub fn x509v3_context<'a>(&'a self, a: Option<&'a ()>, b: Option<&'a ()>) -> X509v3Context { X509v3Context }
        pub fn sign<T>(&mut self, k: &PKeyRef<T>, md: MessageDigest) -> Result<(), ErrorStack> { Ok(()) }
        pub fn build(self) -> X509 { self.c }
    }
    impl X509Extension {
        pub fn new(conf: Option<&()>, ctx: Option<&X509v3Context>, name: &str, value: &str) -> Result<X509Extension, ErrorStack> {
            Ok(X509Extension::Raw { name: name.to_string(), value: value.to_string() })
        }
    }
    pub mod extension {
        use super::*;
        pub struct BasicConstraints;
        impl BasicConstraints {
            pub fn new() -> Self { BasicConstraints }
            pub fn build(&self) -> Result<X509Extension, ErrorStack> { Ok(X509Extension::BasicConstraints) }
        }
        pub struct SubjectAlternativeName { dns: Vec<String>, ip: Vec<String> }
        impl SubjectAlternativeName {
            pub fn new() -> Self { SubjectAlternativeName { dns: vec![], ip: vec![] } }
            pub fn dns(&mut self, d: &str) -> &mut Self { self.dns.push(d.to_string()); self }
            pub fn ip(&mut self, d: &str) -> &mut Self { self.ip.push(d.to_string()); self }
            pub fn build(&self, ctx: &X509v3Context) -> Result<X509Extension, ErrorStack> {
                Ok(X509Extension::San { dns: self.dns.clone(), ip: self.ip.clone() })
            }
        }
    }
}
