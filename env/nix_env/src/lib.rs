//! Environment model of nix::unistd as used by acmed::storage::set_owner.
#![allow(dead_code, unused_variables)]
/// acme_common converts std::io::Error (the real crate's Errno conversion lives in acme_common and is
/// tied to the real nix type)
pub type Error = std::io::Error;
pub type Result<T> = std::result::Result<T, Error>;
pub struct NixState {
    pub magic: u64,
    /// id the user / group database maps every known name to (None: name unknown)
    pub known_user: Option<u32>,
    pub known_group: Option<u32>,
    pub chown_calls: u32,
    pub chown_uid: Option<u32>,
    pub chown_gid: Option<u32>,
    pub chown_fails: bool,
}
pub static mut NIX: NixState = NixState { magic: 0x0417_C0DE_ACED_0006, known_user: None, known_group: None, chown_calls: 0, chown_uid: None, chown_gid: None, chown_fails: false };
pub fn st() -> &'static mut NixState {
    unsafe { &mut *core::ptr::addr_of_mut!(NIX) }
}
pub mod unistd {
    use super::*;
    use std::path::Path;
    #[derive(Debug, Clone, Copy, PartialEq)]
    pub struct Uid(pub u32);
    #[derive(Debug, Clone, Copy, PartialEq)]
    pub struct Gid(pub u32);
    impl Uid {
        pub fn from_raw(u: u32) -> Self {
            Uid(u)
        }
        pub fn as_raw(&self) -> u32 {
            self.0
        }
    }
    impl Gid {
        pub fn from_raw(u: u32) -> Self {
            Gid(u)
        }
        pub fn as_raw(&self) -> u32 {
            self.0
        }
    }
    pub struct User {
        pub uid: Uid,
        /// primary group of the user (distinct from every group id the harnesses use)
        pub gid: Gid,
    }
    pub struct Group {
        pub gid: Gid,
    }
    impl User {
        pub fn from_name(n: &str) -> Result<Option<User>> {
            Ok(st().known_user.map(|u| User { uid: Uid(u), gid: Gid(4_000_000_000) }))
        }
    }
    impl Group {
        pub fn from_name(n: &str) -> Result<Option<Group>> {
            Ok(st().known_group.map(|g| Group { gid: Gid(g) }))
        }
    }
    pub fn chown<P: AsRef<Path> + ?Sized>(p: &P, u: Option<Uid>, g: Option<Gid>) -> Result<()> {
        let s = st();
        s.chown_calls += 1;
        s.chown_uid = u.map(|x| x.0);
        s.chown_gid = g.map(|x| x.0);
        if s.chown_fails {
            Err(std::io::Error::from(std::io::ErrorKind::PermissionDenied))
        } else {
            Ok(())
        }
    }
}
