//! Environment model of nix::unistd as used by acmed::storage::set_owner.
#![allow(static_mut_refs, dead_code, unused_variables)]
use std::fmt;
#[derive(Debug, Clone, Copy, PartialEq)]
pub struct Error(pub i32);
impl fmt::Display for Error { fn fmt(&self, f: &mut fmt::Formatter) -> fmt::Result { write!(f, "errno {}", self.0) } }
impl std::error::Error for Error {}
pub type Result<T> = std::result::Result<T, Error>;
pub mod unistd {
    use super::*;
    use std::path::Path;
    #[derive(Debug, Clone, Copy, PartialEq)] pub struct Uid(pub u32);
    #[derive(Debug, Clone, Copy, PartialEq)] pub struct Gid(pub u32);
    impl Uid { pub fn from_raw(u: u32) -> Self { Uid(u) } pub fn as_raw(&self) -> u32 { self.0 } }
    impl Gid { pub fn from_raw(u: u32) -> Self { Gid(u) } pub fn as_raw(&self) -> u32 { self.0 } }
    pub struct User { pub uid: Uid }
    pub struct Group { pub gid: Gid }
    pub static mut KNOWN_USER: Option<u32> = None;
    pub static mut KNOWN_GROUP: Option<u32> = None;
    pub static mut CHOWN_CALL: Option<(Option<u32>, Option<u32>)> = None;
    pub static mut CHOWN_FAILS: bool = false;
    impl User { pub fn from_name(n: &str) -> Result<Option<User>> { Ok(unsafe { KNOWN_USER }.map(|u| User { uid: Uid(u) })) } }
    impl Group { pub fn from_name(n: &str) -> Result<Option<Group>> { Ok(unsafe { KNOWN_GROUP }.map(|g| Group { gid: Gid(g) })) } }
    pub fn chown<P: AsRef<Path> + ?Sized>(p: &P, u: Option<Uid>, g: Option<Gid>) -> Result<()> {
        unsafe { CHOWN_CALL = Some((u.map(|x| x.0), g.map(|x| x.0))); if CHOWN_FAILS { Err(Error(1)) } else { Ok(()) } }
    }
}
