//! Environment model of the subset of `async-process` used by acmed/src/hooks.rs.
//! A child is a record: spawn and wait events are logged in PROC; the exit status is chosen by the
//! solver at wait time (success | exit code != 0 | killed by a signal).
#![allow(dead_code, unused_variables)]
use std::ffi::OsStr;
use std::io;
use std::pin::Pin;
use std::task::{Context, Poll};

pub const MAX_CHILDREN: usize = 4;
pub struct ProcState {
    pub magic: u64,
    /// number of children spawned
    pub spawned: usize,
    /// first byte of the program name of each spawned child
    pub prog0: [u8; MAX_CHILDREN],
    /// exit kind of each child once waited for: 0 success, 1 non-zero code, 2 signal; 9 = not waited
    pub exit: [u8; MAX_CHILDREN],
    /// children spawned and not yet waited for
    pub alive: u32,
    /// set when two children were alive at once
    pub overlap: bool,
    /// make spawn() itself fail for the k-th child (solver's choice when `spawn_may_fail`)
    pub spawn_may_fail: bool,
    pub spawn_failed: bool,
}
pub static mut PROC: ProcState = ProcState {
    magic: 0x9A0C_C0DE_ACED_0005,
    spawned: 0,
    prog0: [0; MAX_CHILDREN],
    exit: [9; MAX_CHILDREN],
    alive: 0,
    overlap: false,
    spawn_may_fail: false,
    spawn_failed: false,
};
pub fn st() -> &'static mut ProcState {
    unsafe { &mut *core::ptr::addr_of_mut!(PROC) }
}
#[cfg(kani)]
fn nd_u8() -> u8 {
    kani::any()
}
#[cfg(not(kani))]
fn nd_u8() -> u8 {
    0
}

pub struct Stdio;
impl Stdio {
    pub fn null() -> Stdio {
        Stdio
    }
    pub fn piped() -> Stdio {
        Stdio
    }
}
impl From<std::fs::File> for Stdio {
    fn from(f: std::fs::File) -> Stdio {
        core::mem::forget(f);
        Stdio
    }
}

pub struct Command {
    prog0: u8,
}
impl Command {
    pub fn new<S: AsRef<OsStr>>(program: S) -> Command {
        let b = program.as_ref().as_encoded_bytes();
        Command { prog0: if b.is_empty() { 0 } else { b[0] } }
    }
    pub fn envs<I, K, V>(&mut self, vars: I) -> &mut Command
    where
        I: IntoIterator<Item = (K, V)>,
        K: AsRef<OsStr>,
        V: AsRef<OsStr>,
    {
        core::mem::forget(vars);
        self
    }
    pub fn args<I, S>(&mut self, args: I) -> &mut Command
    where
        I: IntoIterator<Item = S>,
        S: AsRef<OsStr>,
    {
        core::mem::forget(args);
        self
    }
    pub fn stdout<T: Into<Stdio>>(&mut self, cfg: T) -> &mut Command {
        self
    }
    pub fn stderr<T: Into<Stdio>>(&mut self, cfg: T) -> &mut Command {
        self
    }
    pub fn stdin<T: Into<Stdio>>(&mut self, cfg: T) -> &mut Command {
        self
    }
    pub fn spawn(&mut self) -> io::Result<Child> {
        let s = st();
        if s.spawn_may_fail && nd_u8() == 1 {
            s.spawn_failed = true;
            return Err(io::Error::from(io::ErrorKind::NotFound));
        }
        let k = s.spawned;
        #[cfg(kani)]
        kani::assume(k < MAX_CHILDREN);
        s.prog0[k] = self.prog0;
        s.spawned = k + 1;
        s.alive += 1;
        if s.alive > 1 {
            s.overlap = true;
        }
        Ok(Child { idx: k, stdin: None })
    }
}

pub struct ChildStdin;
impl futures_io::AsyncWrite for ChildStdin {
    fn poll_write(self: Pin<&mut Self>, cx: &mut Context<'_>, buf: &[u8]) -> Poll<io::Result<usize>> {
        Poll::Ready(Ok(buf.len()))
    }
    fn poll_flush(self: Pin<&mut Self>, cx: &mut Context<'_>) -> Poll<io::Result<()>> {
        Poll::Ready(Ok(()))
    }
    fn poll_close(self: Pin<&mut Self>, cx: &mut Context<'_>) -> Poll<io::Result<()>> {
        Poll::Ready(Ok(()))
    }
}

pub struct Child {
    idx: usize,
    pub stdin: Option<ChildStdin>,
}
#[derive(Clone, Copy)]
pub struct ExitStatus {
    kind: u8,
}
impl ExitStatus {
    pub fn success(&self) -> bool {
        self.kind == 0
    }
    pub fn code(&self) -> Option<i32> {
        match self.kind {
            0 => Some(0),
            1 => Some(1),
            _ => None,
        }
    }
}
impl Child {
    pub async fn status(&mut self) -> io::Result<ExitStatus> {
        let s = st();
        let kind = nd_u8() % 3;
        s.exit[self.idx] = kind;
        s.alive -= 1;
        Ok(ExitStatus { kind })
    }
}
