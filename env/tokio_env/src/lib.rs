//! Environment model of the parts of tokio that acmed touches: a POSIX-like single-file
//! store (tokio::fs), and a clock-advancing sleep (tokio::time). Everything else is the real tokio.
#![allow(static_mut_refs, dead_code, unused_variables)]
pub use real_tokio::runtime;

pub mod time {
    use std::time::Duration;
    pub static mut SLEPT_SECS: u64 = 0;
    pub static mut SLEEPS: u32 = 0;
    pub async fn sleep(d: Duration) {
        unsafe { SLEEPS += 1; SLEPT_SECS = SLEPT_SECS.saturating_add(d.as_secs()); }
    }
}

pub mod io {
    pub trait AsyncReadExt {}
    pub trait AsyncWriteExt {}
}

pub mod fs {
    use std::io;
    use std::path::Path;
    pub const CAP: usize = 4;
    /// the one file the harness is interested in
    pub static mut EXISTS: bool = false;
    pub static mut LEN: usize = 0;
    pub static mut DATA: [u8; CAP] = [0; CAP];
    pub static mut MODE: u32 = 0;
    pub static mut CREATE_MODE_ARG: Option<u32> = None;

    pub struct File { pos: usize, writable: bool }
    #[derive(Clone)]
    pub struct OpenOptions { write: bool, create: bool, truncate: bool, append: bool, mode: u32 }
    impl OpenOptions {
        pub fn new() -> Self { OpenOptions { write: false, create: false, truncate: false, append: false, mode: 0o666 } }
        pub fn write(&mut self, v: bool) -> &mut Self { self.write = v; self }
        pub fn create(&mut self, v: bool) -> &mut Self { self.create = v; self }
        pub fn truncate(&mut self, v: bool) -> &mut Self { self.truncate = v; self }
        pub fn append(&mut self, v: bool) -> &mut Self { self.append = v; self }
        pub fn mode(&mut self, m: u32) -> &mut Self { self.mode = m; self }
        pub async fn open(&self, path: impl AsRef<Path>) -> io::Result<File> {
            unsafe {
                if !EXISTS {
                    if !self.create { return Err(io::Error::from(io::ErrorKind::NotFound)); }
                    EXISTS = true; LEN = 0; MODE = self.mode; CREATE_MODE_ARG = Some(self.mode);
                } else if self.truncate && self.write {
                    LEN = 0;
                }
                Ok(File { pos: if self.append { LEN } else { 0 }, writable: self.write })
            }
        }
    }
    impl File {
        pub async fn open(path: impl AsRef<Path>) -> io::Result<File> {
            unsafe { if EXISTS { Ok(File { pos: 0, writable: false }) } else { Err(io::Error::from(io::ErrorKind::NotFound)) } }
        }
        pub async fn create(path: impl AsRef<Path>) -> io::Result<File> {
            unsafe { EXISTS = true; LEN = 0; Ok(File { pos: 0, writable: true }) }
        }
        pub async fn write_all(&mut self, src: &[u8]) -> io::Result<()> {
            unsafe {
                let mut i = 0;
                while i < src.len() {
                    if self.pos >= CAP { return Err(io::Error::from(io::ErrorKind::Other)); }
                    DATA[self.pos] = src[i];
                    self.pos += 1;
                    i += 1;
                }
                if self.pos > LEN { LEN = self.pos; }
                Ok(())
            }
        }
        pub async fn read_to_end(&mut self, buf: &mut Vec<u8>) -> io::Result<usize> {
            unsafe {
                let mut n = 0;
                while self.pos < LEN { buf.push(DATA[self.pos]); self.pos += 1; n += 1; }
                Ok(n)
            }
        }
    }
}
