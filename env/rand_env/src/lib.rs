//! Environment model of the subset of `rand` used by acmed: `thread_rng().gen_range(a..b)` over
//! Durations returns ANY value of [a, b) and -- like the real crate -- panics on an empty range.
#![allow(dead_code)]
use std::ops::Range;
use std::time::Duration;

pub struct RandState {
    pub magic: u64,
    pub draws: u32,
    pub last_secs: u64,
}
pub static mut RAND: RandState = RandState { magic: 0x7A4D_C0DE_ACED_0003, draws: 0, last_secs: 0 };
pub fn st() -> &'static mut RandState {
    unsafe { &mut *core::ptr::addr_of_mut!(RAND) }
}

pub trait SampleRange<T> {
    fn pick(self) -> T;
}
impl SampleRange<Duration> for Range<Duration> {
    fn pick(self) -> Duration {
        assert!(self.start < self.end, "rand: cannot sample empty range");
        #[cfg(kani)]
        let d = {
            let s: u64 = kani::any();
            let n: u32 = kani::any();
            kani::assume(n < 1_000_000_000);
            let d = Duration::new(s, n);
            kani::assume(d >= self.start && d < self.end);
            d
        };
        #[cfg(not(kani))]
        let d = self.start;
        let st = st();
        st.draws += 1;
        st.last_secs = d.as_secs();
        d
    }
}
pub trait Rng {
    fn gen_range<T, R: SampleRange<T>>(&mut self, range: R) -> T {
        range.pick()
    }
}
pub struct ThreadRng;
impl Rng for ThreadRng {}
pub fn thread_rng() -> ThreadRng {
    ThreadRng
}
