//! Single-task model of async_lock::RwLock: acquisition never waits; an acquisition that
//! *would* wait on a guard held by the same task is a self-deadlock and is asserted against.
//! Records lock order: locks are numbered in creation order; acquiring a lower-numbered lock
//! while holding a higher-numbered one violates the global order.
#![allow(static_mut_refs)]
use std::cell::{Cell, UnsafeCell};
use std::ops::{Deref, DerefMut};

pub static mut NEXT_ID: u32 = 1;
pub static mut HELD: [u32; 8] = [0; 8]; // HELD[id] = number of guards alive on lock id
pub static mut ORDER_VIOLATION: bool = false;
pub static mut SELF_DEADLOCK: bool = false;

pub struct RwLock<T> { id: u32, readers: Cell<u32>, writer: Cell<bool>, data: UnsafeCell<T> }
unsafe impl<T: Send> Send for RwLock<T> {}
unsafe impl<T: Send + Sync> Sync for RwLock<T> {}

fn note_acquire(id: u32) {
    unsafe {
        let mut j = id as usize + 1;
        while j < 8 { if HELD[j] > 0 { ORDER_VIOLATION = true; } j += 1; }
        HELD[id as usize] += 1;
    }
}

impl<T> RwLock<T> {
    pub fn new(t: T) -> Self {
        let id = unsafe { let i = NEXT_ID; NEXT_ID += 1; i };
        assert!(id < 8);
        RwLock { id, readers: Cell::new(0), writer: Cell::new(false), data: UnsafeCell::new(t) }
    }
    pub fn read(&self) -> RwLockReadGuard<'_, T> {
        if self.writer.get() { unsafe { SELF_DEADLOCK = true; } }
        assert!(!self.writer.get(), "self-deadlock: read requested while a write guard is held");
        self.readers.set(self.readers.get() + 1);
        note_acquire(self.id);
        RwLockReadGuard { l: self }
    }
    pub fn write(&self) -> RwLockWriteGuard<'_, T> {
        if self.writer.get() || self.readers.get() > 0 { unsafe { SELF_DEADLOCK = true; } }
        assert!(!self.writer.get() && self.readers.get() == 0, "self-deadlock: write requested while a guard is held");
        self.writer.set(true);
        note_acquire(self.id);
        RwLockWriteGuard { l: self }
    }
    pub fn is_free(&self) -> bool { !self.writer.get() && self.readers.get() == 0 }
}
pub struct RwLockReadGuard<'a, T> { l: &'a RwLock<T> }
pub struct RwLockWriteGuard<'a, T> { l: &'a RwLock<T> }
impl<T> Deref for RwLockReadGuard<'_, T> { type Target = T; fn deref(&self) -> &T { unsafe { &*self.l.data.get() } } }
impl<T> Deref for RwLockWriteGuard<'_, T> { type Target = T; fn deref(&self) -> &T { unsafe { &*self.l.data.get() } } }
impl<T> DerefMut for RwLockWriteGuard<'_, T> { fn deref_mut(&mut self) -> &mut T { unsafe { &mut *self.l.data.get() } } }
impl<T> Drop for RwLockReadGuard<'_, T> { fn drop(&mut self) { self.l.readers.set(self.l.readers.get() - 1); unsafe { HELD[self.l.id as usize] -= 1; } } }
impl<T> Drop for RwLockWriteGuard<'_, T> { fn drop(&mut self) { self.l.writer.set(false); unsafe { HELD[self.l.id as usize] -= 1; } } }
