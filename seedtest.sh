#!/bin/bash
# usage: seedtest.sh <PROP> <seed-dir> [extra check args]: apply seeded/<dir>/patch.diff to /repo, run the check, undo
p=$1; d=$2; shift 2
cd /repo && git apply /verif/seeded/$d/patch.diff || { echo "APPLY FAILED"; exit 3; }
cd /verif && ./check $p --no-evidence "$@" > /tmp/seedtest_$d.txt 2>&1; rc=$?
cd /repo && git checkout -- . 
echo "$d: check $p rc=$rc"; grep "^VIOLATION\|^INCONCL" /tmp/seedtest_$d.txt | head -5
