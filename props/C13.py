import os, sys
sys.path.insert(0, os.path.dirname(__file__))
from _common import *
from C14 import gen_config, LEN_DURATION_CUT, CFG
SPEC = {
    'id': 'C13',
    'outside': 'umask, kernel semantics of the mode on existing files, the FileManager literals in MainEventLoop::new (async constructor with file I/O)',
    'assumptions': ['std::hash::RandomState::new stubbed'],
    'units': [
        {
            'name': 'getters', 'edits': [LEN_DURATION_CUT], 'harness_files': {CFG: 'harness/config.rs'}, 'gen': gen_config,
            'harnesses': [
                {'name': 'c13_mode_owner_getters', 'file': CFG, 'timeout': 1500,
                 'bounds': 'every u32 mode value, presence of each option and of the [global] table symbolic',
                 'asserts': 'get_pk_file_mode / get_cert_file_mode / owner getters return the configured value, else 0600 / 0644 / none'},
            ],
        },
    ],
}
