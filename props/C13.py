import os, sys
sys.path.insert(0, os.path.dirname(__file__))
from _common import *
from C14 import gen_config, LEN_DURATION_CUT, CFG
from C02 import SLICE_UNIT
SPEC = {
    'id': 'C13',
    'outside': 'umask, kernel semantics of the mode on existing files, the FileManager literals in MainEventLoop::new (async constructor with file I/O)',
    'assumptions': ['std::hash::RandomState::new stubbed'],
    'units': [
        SLICE_UNIT,
        {
            'name': 'getters', 'edits': [LEN_DURATION_CUT], 'harness_files': {CFG: 'harness/config.rs'}, 'gen': gen_config,
            'harnesses': [
                {'name': 'c13_mode_owner_getters', 'file': CFG, 'timeout': 1500,
                 'bounds': 'every u32 mode value, presence of each option and of the [global] table symbolic',
                 'asserts': 'get_pk_file_mode / get_cert_file_mode / owner getters return the configured value, else 0600 / 0644 / none'},
            ],
        },
        {
            'name': 'owner', 'shims': ['nix'], 'edits': STORAGE_EDITS, 'assumptions': STORAGE_ASSUMPTIONS,
            'harness_files': {ST: 'harness/storage.rs'},
            'harnesses': [
                {'name': 'c13_owner_numeric_and_named', 'file': ST, 'timeout': 1800, 'unwindset': {'all::<|Bytes|from_str_radix|from_ascii': 3, 'memcmp': 2},
                 'bounds': 'pk_file_user = any one-digit number, pk_file_group = a name known to the user database (any gid) or unknown; certificate owner unset',
                 'asserts': 'set_owner passes the numeric uid as is and the looked-up gid (none for an unknown name) to chown for the key file; key-file owner settings do not leak to the certificate file'},
            ],
        },
    ],
}
