# shared edit snippets
EP = 'acmed/src/endpoint.rs'
SLEEP_CUT = {'file': EP, 'replace': 'use tokio::time::sleep;', 'with': 'use crate::verif_env::sleep;'}
NOW_CUT = {'file': EP, 'replace': 'Instant::now()', 'with': 'crate::verif_env::now_stub()', 'count': 3}
PARSE_DURATION_CUT = {'file': 'acmed/src/duration.rs', 'fn': 'parse_duration',
                      'body': '\tif kani::any() { return Err("invalid duration".into()); }\n\tlet s: u64 = kani::any();\n\tOk(Duration::from_secs(s))'}
ENDPOINT_ASSUMPTIONS = [
    'tokio::time::sleep replaced by a model: a sleep lasts any whole number of seconds >= 0 (over-approximation), at most 2-3 sleeps per call',
    'Instant::now() in endpoint.rs replaced (expression cut, 3 sites) by a model: non-decreasing symbolic clock, whole seconds, advances <= 2 s per reading',
]

ST = 'acmed/src/storage.rs'
FILES_EXIST_CUT = {'file': ST, 'fn': 'certificate_files_exists', 'body': '\tcrate::verif_env::env().files_exist'}
GET_CERT_CUT = {'file': ST, 'fn': 'get_certificate', 'body': '\tlet e = crate::verif_env::env();\n\tif e.cert_unreadable { return Err("unreadable".into()); }\n\tOk(X509Certificate::from_pem(&e.cert_file[..e.cert_file_len])?)'}

APA = 'acmed/src/acme_proto/account.rs'
def _acc_model(kind, on_ok):
    return ('\tlet e = crate::verif_env::env();\n'
            '\tkani::assume(e.acc_ev_n < 4);\n'
            '\te.acc_ev[e.acc_ev_n] = %d;\n'
            '\te.acc_ev_key_ok[e.acc_ev_n] = account.current_key.key.inner_key.kid == e.ca_key_kid;\n'
            '\te.acc_ev_n += 1;\n'
            '\tif kani::any() { e.acc_failed = true; return Err("request failed".into()); }\n'
            + on_ok + '\tOk(())') % kind
REGISTER_CUT = {'file': APA, 'fn': 'register_account', 'body': _acc_model(1, '\te.ca_key_kid = account.current_key.key.inner_key.kid;\n\taccount.set_account_url(&endpoint.name, "u")?;\n\taccount.update_key_hash(&endpoint.name)?;\n\taccount.update_contacts_hash(&endpoint.name)?;\n\taccount.update_external_account_hash(&endpoint.name)?;\n')}
CONTACTS_CUT = {'file': APA, 'fn': 'update_account_contacts', 'body': _acc_model(2, '\taccount.update_contacts_hash(&endpoint.name)?;\n')}
KEY_CUT = {'file': APA, 'fn': 'update_account_key', 'body': _acc_model(3, '\te.ca_key_kid = account.current_key.key.inner_key.kid;\n\taccount.update_key_hash(&endpoint.name)?;\n')}

CRTF = 'acmed/src/certificate.rs'
MLF = 'acmed/src/main_event_loop.rs'
SCHED_CUT = {'file': CRTF, 'fn': 'schedule_renewal', 'body': '\t\tlet e = crate::verif_env::env();\n\t\te.ml_sched_calls += 1;\n\t\tif kani::any() { return Err("scheduling error".into()); }\n\t\tlet s: u32 = kani::any();\n\t\tOk(Duration::from_secs(s as u64))'}
POSTOP_CUT = {'file': CRTF, 'fn': 'call_post_operation_hooks', 'body': '\t\tlet e = crate::verif_env::env();\n\t\te.ml_post_calls += 1;\n\t\te.ml_post_success = is_success;\n\t\te.ml_post_status_is_success_word = status == "success";\n\t\te.ml_post_status_len = status.len();\n\t\tif kani::any() { return Err("hook failed".into()); }\n\t\tOk(())'}
REQCERT_CUT = {'file': 'acmed/src/acme_proto.rs', 'fn': 'request_certificate', 'body': '\tlet e = crate::verif_env::env();\n\tif (e.ml_req_calls as usize) < 3 { e.ml_ms_at_req[e.ml_req_calls as usize] = e.slept_req_ms; }\n\te.ml_req_calls += 1;\n\tlet ok: bool = kani::any();\n\te.ml_req_ok = ok;\n\tif ok { Ok(()) } else { Err("request failed".into()) }'}
ML_SLEEP_CUT = {'file': MLF, 'replace': 'use tokio::time::sleep;', 'with': 'use crate::verif_env::sleep;'}

HTTPF = 'acmed/src/http.rs'
ERRF = 'acmed/src/acme_proto/structs/error.rs'
HTTP_EDITS = [
    {'file': HTTPF, 'fn': 'rate_limit', 'body': '\treqwest::st().limiter_passes += 1;'},
    {'file': HTTPF, 'replace': 'let api_err = resp.json::<HttpApiError>()?;', 'with': 'let api_err = crate::acme_proto::structs::verif_api_error(&resp.body)?;'},
    {'file': HTTPF, 'replace': 'thread::sleep(time::Duration::from_secs(crate::DEFAULT_HTTP_FAIL_WAIT_SEC));', 'with': 'let _ = crate::DEFAULT_HTTP_FAIL_WAIT_SEC;'},
    {'file': HTTPF, 'regex': r'impl From<reqwest::Error> for HttpError \{\s*fn from\(error: reqwest::Error\) -> Self \{\s*HttpError::GenericError\(error\.into\(\)\)', 'with': 'impl From<reqwest::Error> for HttpError {\n\tfn from(error: reqwest::Error) -> Self {\n\t\tlet _ = error;\n\t\tHttpError::GenericError("transport error".into())'},
    {'file': ERRF, 'append': """#[cfg(kani)]
pub fn verif_api_error(body: &str) -> Result<HttpApiError, Error> {
    let t = match body.as_bytes().first() {
        Some(b'N') => Some("urn:ietf:params:acme:error:badNonce"),
        Some(b'S') => Some("urn:ietf:params:acme:error:serverInternal"),
        Some(b'R') => Some("urn:ietf:params:acme:error:rateLimited"),
        Some(b'U') => Some("urn:ietf:params:acme:error:unauthorized"),
        Some(b'A') => Some("urn:ietf:params:acme:error:accountDoesNotExist"),
        Some(b'X') => Some("urn:example:unknown"),
        Some(b'-') => None,
        _ => return Err("not a JSON problem document".into()),
    };
    Ok(HttpApiError { error_type: t.map(|s| s.to_string()), status: None, detail: None })
}
"""},
    {'file': 'acmed/src/acme_proto/structs.rs', 'replace': 'pub use error::{AcmeError, ApiError, HttpApiError};', 'with': 'pub use error::{AcmeError, ApiError, HttpApiError};\n#[cfg(kani)]\npub use error::verif_api_error;'},
]
HTTP_ASSUMPTIONS = [
    'reqwest model (env/reqwest_env): scripted server; per send the solver chooses transport error | 2xx | non-2xx, nonce header absent/valid/malformed, one of 8 problem documents; nonces pairwise distinct (RFC 8555 6.5)',
    'http::rate_limit cut to a pass counter (RateLimit itself is decided in harness/endpoint.rs)',
    'problem document parsing cut: the body\'s first byte selects the HttpApiError (serde_json trusted); classification of the type string stays the real code',
    'thread::sleep in the retry loop removed (expression cut); RandomState/fmt::format stubbed',
]

HOOKSF = 'acmed/src/hooks.rs'
STORAGE_EDITS = [
    {'file': ST, 'replace': 'use tokio::fs::{File, OpenOptions};', 'with': 'use crate::verif_env::fsmodel::{File, OpenOptions};'},
    {'file': ST, 'replace': 'use tokio::io::{AsyncReadExt, AsyncWriteExt};', 'with': ''},
    {'file': ST, 'replace': 'hook_data.set_env(&fm.env);', 'with': 'let _ = &mut hook_data;'},
    {'file': ST, 'replace': 'let is_new = !path.is_file();', 'with': 'let is_new = !crate::verif_env::env().fs_exists;'},
    {'file': ST, 'replace': '&path.display().to_string()', 'with': '""', 'count': 5},
    {'file': ST, 'fn': 'get_file_full_path', 'body': '\tlet _ = (fm, file_type);\n\tOk((String::new(), String::new(), PathBuf::new()))'},
    {'file': HOOKSF, 'replace': 'env::vars().chain(env.iter().map(deref))', 'with': 'env.iter().map(deref)'},
    {'file': ST, 'regex': r'hooks::call\(fm, &fm\.hooks, &hook_data, (HookType::\w+)\)\s*\.await\?;', 'with': r'self::verif_h::hook_event(\1 as u8)?;', 'count': 4},
]
STORAGE_ASSUMPTIONS = [
    'tokio::fs replaced (use-line cut) by a POSIX-like single-file model: open(write,create[,truncate]) creates when absent, truncates only when asked; write_all writes at offset 0 and keeps what lies beyond',
    'storage::get_file_full_path cut (path = empty; template rendering outside); Path::is_file replaced by the model\'s existence flag; path.display() in error text removed',
    'the four hooks::call(...).await? statements of write_file are replaced (expression cut) by a synchronous recorder of the event type that fails on the solver\'s choice (a generic async fn on the path makes CBMC 6.11 abort); process environment not read',
    'nix model: chown records its arguments; user/group database maps names to a symbolic id or to nothing',
]
