# shared edit snippets
EP = 'acmed/src/endpoint.rs'
SLEEP_CUT = {'file': EP, 'replace': 'use tokio::time::sleep;', 'with': 'use crate::verif_env::sleep;'}
NOW_CUT = {'file': EP, 'replace': 'Instant::now()', 'with': 'crate::verif_env::now_stub()', 'count': 3}
PARSE_DURATION_CUT = {'file': 'acmed/src/duration.rs', 'fn': 'parse_duration',
                      'body': '\tif kani::any() { return Err("invalid duration".into()); }\n\tlet s: u64 = kani::any();\n\tOk(Duration::from_secs(s))'}
ENDPOINT_ASSUMPTIONS = [
    'tokio::time::sleep replaced by a model: a sleep lasts any whole number of seconds >= 0 (over-approximation), at most 2-3 sleeps per call',
    'Instant::now() in endpoint.rs replaced (expression cut, 3 sites) by a model: non-decreasing symbolic clock, whole seconds, advances <= 2 s per reading',
]

ST = 'acmed/src/storage.rs'
FILES_EXIST_CUT = {'file': ST, 'fn': 'certificate_files_exists', 'body': '\tcrate::verif_env::env().files_exist'}
GET_CERT_CUT = {'file': ST, 'fn': 'get_certificate', 'body': '\tlet e = crate::verif_env::env();\n\tif e.cert_unreadable { return Err("unreadable".into()); }\n\tOk(X509Certificate::from_pem(&e.cert_file[..e.cert_file_len])?)'}

APA = 'acmed/src/acme_proto/account.rs'
def _acc_model(kind, on_ok):
    return ('\tlet e = crate::verif_env::env();\n'
            '\tkani::assume(e.acc_ev_n < 4);\n'
            '\te.acc_ev[e.acc_ev_n] = %d;\n'
            '\te.acc_ev_key_ok[e.acc_ev_n] = account.current_key.key.inner_key.kid == e.ca_key_kid;\n'
            '\te.acc_ev_n += 1;\n'
            '\tif kani::any() { e.acc_failed = true; return Err("request failed".into()); }\n'
            + on_ok + '\tOk(())') % kind
REGISTER_CUT = {'file': APA, 'fn': 'register_account', 'body': _acc_model(1, '\te.ca_key_kid = account.current_key.key.inner_key.kid;\n\taccount.set_account_url(&endpoint.name, "u")?;\n\taccount.update_key_hash(&endpoint.name)?;\n\taccount.update_contacts_hash(&endpoint.name)?;\n\taccount.update_external_account_hash(&endpoint.name)?;\n')}
CONTACTS_CUT = {'file': APA, 'fn': 'update_account_contacts', 'body': _acc_model(2, '\taccount.update_contacts_hash(&endpoint.name)?;\n')}
KEY_CUT = {'file': APA, 'fn': 'update_account_key', 'body': _acc_model(3, '\te.ca_key_kid = account.current_key.key.inner_key.kid;\n\taccount.update_key_hash(&endpoint.name)?;\n')}
