# shared edit snippets
EP = 'acmed/src/endpoint.rs'
SLEEP_CUT = {'file': EP, 'replace': 'use tokio::time::sleep;', 'with': 'use crate::verif_env::sleep;'}
NOW_CUT = {'file': EP, 'replace': 'Instant::now()', 'with': 'crate::verif_env::now_stub()', 'count': 3}
PARSE_DURATION_CUT = {'file': 'acmed/src/duration.rs', 'fn': 'parse_duration',
                      'body': '\tif kani::any() { return Err("invalid duration".into()); }\n\tlet s: u64 = kani::any();\n\tOk(Duration::from_secs(s))'}
ENDPOINT_ASSUMPTIONS = [
    'tokio::time::sleep replaced by a model: a sleep lasts any whole number of seconds >= 0 (over-approximation), at most 2-3 sleeps per call',
    'Instant::now() in endpoint.rs replaced (expression cut, 3 sites) by a model: non-decreasing symbolic clock, whole seconds, advances <= 2 s per reading',
]

ST = 'acmed/src/storage.rs'
FILES_EXIST_CUT = {'file': ST, 'fn': 'certificate_files_exists', 'body': '\tcrate::verif_env::env().files_exist'}
GET_CERT_CUT = {'file': ST, 'fn': 'get_certificate', 'body': '\tlet e = crate::verif_env::env();\n\tif e.cert_unreadable { return Err("unreadable".into()); }\n\tOk(X509Certificate::from_pem(&e.cert_file[..e.cert_file_len])?)'}
