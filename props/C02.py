import os, sys
sys.path.insert(0, os.path.dirname(__file__))
from _common import *
UW = {'write_all': 5, 'write_one': 5, 'simd_bitmask': 17, 'swap_nonoverlapping': 8, 'set_env': 2, 'memcmp': 2}
B = 'arbitrary previous file state (absent, or 0..3 symbolic bytes) x new content of 0..3 symbolic bytes x any modes; hooks may fail (symbolic)'
A = 'after Ok: the file holds EXACTLY the new bytes (length and content); created with the mode of its type; chown for key/cert only; pre/post create or edit hooks bracket the write; no open after a failed pre hook'
SPEC = {
    'id': 'C02',
    'outside': "the file system's own atomicity/crash behaviour; contents longer than 3 bytes (no length-dependent code on the path); the identity 'bytes written == body returned by the CA' in request_certificate (flow harness); path construction and template rendering",
    'assumptions': STORAGE_ASSUMPTIONS + ['RandomState/fmt::format stubbed'],
    'units': [
        {
            'name': 'write', 'shims': ['nix'], 'edits': STORAGE_EDITS, 'harness_files': {ST: 'harness/storage.rs'},
            'harnesses': [
                {'name': 'dbg_write_min', 'file': ST, 'tiers': ['dbg'], 'timeout': 900, 'unwindset': UW},
                {'name': 'c02_write_account', 'file': ST, 'timeout': 1800, 'unwindset': UW, 'bounds': 'account file; ' + B, 'asserts': A},
                {'name': 'c02_write_private_key', 'file': ST, 'timeout': 1800, 'unwindset': UW, 'bounds': 'private-key file; ' + B, 'asserts': A},
                {'name': 'c02_write_certificate', 'file': ST, 'timeout': 1800, 'unwindset': UW, 'bounds': 'certificate file; ' + B, 'asserts': A},
            ],
        },
    ],
}
