import os, sys, re
sys.path.insert(0, os.path.dirname(__file__))
from _common import *
UW = {'write_all': 5, 'write_one': 5, 'slice_one': 5, 'simd_bitmask': 17, 'swap_nonoverlapping': 8, 'set_env': 2, 'memcmp': 2}
B = 'arbitrary previous file state (absent, or 0..3 symbolic bytes) x new content of 0..3 symbolic bytes x any modes; hooks may fail (symbolic)'
A = 'after Ok: the file holds EXACTLY the new bytes (length and content); created with the mode of its type; chown for key/cert only; pre/post create or edit hooks bracket the write; no open after a failed pre hook'


def gen_storage(d, cache, cut):
    """Source slice: the open/write/chown statements of write_file (after the unit's expression cuts)."""
    p = os.path.join(d, ST)
    src = cache[p]
    real = src.split('#[cfg(kani)]')[0]
    a, b = 'let mut file = if cfg!(unix) {', '\tif is_new {'
    if real.count(a) != 1:
        raise cut.EncodeError('slice: anchor %r not found exactly once in storage.rs' % a)
    i = real.index(a)
    j = real.find(b, i)
    if j < 0:
        raise cut.EncodeError('slice: end anchor of write_file not found')
    sl = real[i:j]
    # single-task de-sugaring of the slice: `<call>.await` -> `<call>_sync` of the file model
    for pat, rep, n in [(r'\.open\(&path\)\s*\.await', '.open_sync(&path)', 1), (r'File::create\(&path\)\s*\.await', 'File::create_sync(&path)', 1),
                        (r'\.write_all\(data\)\s*\.await', '.write_all_sync(data)', 1)]:
        sl, k = re.subn(pat, rep, sl)
        if k != n:
            raise cut.EncodeError('slice: %r expected %d, got %d' % (pat, n, k))
    if '.await' in sl:
        raise cut.EncodeError('slice: unexpected .await left in the write_file slice')
    cache[p] = src.replace('VERIF_WRITE_SLICE', '\t' + sl)


SB = 'arbitrary previous file state (absent, or 0..3 symbolic bytes) x new content of 0..3 symbolic bytes x any u32 modes'
SA = 'after the open/write/chown statements of write_file: exactly one open for writing; the file holds EXACTLY the new bytes (length and content: no residue); a new file is created with the mode of its type (0600 account, pk_file_mode, cert_file_mode); chown for key/cert only'
SLICE_EDITS = [{'file': ST, 'replace': 'use tokio::fs::{File, OpenOptions};', 'with': 'use self::verif_h::fsm::{File, OpenOptions};'}] + STORAGE_EDITS[1:]
SLICE_UNIT = {
    'name': 'write_slice', 'shims': ['nix'], 'edits': SLICE_EDITS, 'gen': gen_storage,
    'assumptions': STORAGE_ASSUMPTIONS + ['the file model of this unit returns a plain error value instead of std::io::Error (its drop glue exhausted the solver); Error::from of that value is a fixed message', 'source slice: the statements of storage::write_file from `let mut file = if cfg!(unix)` up to the post hooks are pasted verbatim from /repo into write_slice(), de-sugared to a single task (`.await` dropped, the file model is synchronous); path computation, hook environment and the four hook calls are outside this unit'],
    'harness_files': {ST: ['harness/storage.rs', 'harness/storage_slice.rs']},
    'harnesses': [
        {'name': 'c02_slice_witness', 'file': ST, 'kind': 'witness', 'timeout': 900, 'unwindset': UW, 'bounds': 'concrete 2-byte write, file present or absent', 'asserts': 'reachability of the create and the edit path'},
        {'name': 'c02_slice_account', 'file': ST, 'timeout': 1500, 'unwindset': UW, 'bounds': 'account file; ' + SB, 'asserts': SA},
        {'name': 'c02_slice_private_key', 'file': ST, 'timeout': 1500, 'unwindset': UW, 'bounds': 'private-key file; ' + SB, 'asserts': SA},
        {'name': 'c02_slice_certificate', 'file': ST, 'timeout': 1500, 'unwindset': UW, 'bounds': 'certificate file; ' + SB, 'asserts': SA},
    ],
}
SPEC = {
    'id': 'C02',
    'outside': "the file system's own atomicity/crash behaviour; contents longer than 3 bytes (no length-dependent code on the path); the identity 'bytes written == body returned by the CA' in request_certificate (flow harness); path construction and template rendering",
    'assumptions': STORAGE_ASSUMPTIONS + ['RandomState/fmt::format stubbed'],
    'units': [
        SLICE_UNIT,
        {
            'name': 'write', 'shims': ['nix'], 'edits': STORAGE_EDITS, 'harness_files': {ST: 'harness/storage.rs'},
            'harnesses': [
                {'name': 'dbg_write_min', 'file': ST, 'tiers': ['dbg'], 'timeout': 900, 'unwindset': UW},
                {'name': 'c02_write_account', 'file': ST, 'tiers': ['dbg'], 'timeout': 1800, 'unwindset': UW, 'bounds': 'account file; ' + B, 'asserts': A},
                {'name': 'c02_write_private_key', 'file': ST, 'tiers': ['dbg'], 'timeout': 1800, 'unwindset': UW, 'bounds': 'private-key file; ' + B, 'asserts': A},
                {'name': 'c02_write_certificate', 'file': ST, 'tiers': ['dbg'], 'timeout': 1800, 'unwindset': UW, 'bounds': 'certificate file; ' + B, 'asserts': A},
            ],
        },
    ],
}
