import os, sys
sys.path.insert(0, os.path.dirname(__file__))
from _common import *
from C14 import gen_config, LEN_DURATION_CUT, CFG
SPEC = {
    'id': 'C18',
    'outside': "certificate chain and host name validation by reqwest/native-tls/OpenSSL (trusted base); reading/parsing of the listed files and the 'no request before the client is built' ordering in http::get/post (reqwest model harness: see DESIGN C18)",
    'assumptions': ['duration::parse_duration cut (tag model) in this unit', 'std::hash::RandomState::new stubbed'],
    'units': [
        {
            'name': 'roots', 'edits': [LEN_DURATION_CUT], 'harness_files': {CFG: 'harness/config.rs'}, 'gen': gen_config,
            'harnesses': [
                {'name': 'c18_roots_000', 'file': CFG, 'timeout': 1500, 'unwindset': {'memcmp': 3, 'ConvertVec>::to_vec': 1, r'drop_glue::<\[std::string::String\]>': 1, 'ExtendElement|extend_desugared|extend_trusted|SpecExtend|from_iter': 1}, 'bounds': 'presence pattern cli=0 endpoint=0 global=0; file names symbolic; [global] table present or absent', 'asserts': 'Endpoint::to_generic hands the HTTP layer exactly command line ++ endpoint ++ global root certificates, in order'},
                {'name': 'c18_roots_001', 'file': CFG, 'timeout': 1500, 'unwindset': {'memcmp': 3, 'ConvertVec>::to_vec': 2, r'drop_glue::<\[std::string::String\]>': 2, 'ExtendElement|extend_desugared|extend_trusted|SpecExtend|from_iter': 2}, 'bounds': 'presence pattern cli=0 endpoint=0 global=1; file names symbolic; [global] table present or absent', 'asserts': 'Endpoint::to_generic hands the HTTP layer exactly command line ++ endpoint ++ global root certificates, in order'},
                {'name': 'c18_roots_010', 'file': CFG, 'timeout': 1500, 'unwindset': {'memcmp': 3, 'ConvertVec>::to_vec': 2, r'drop_glue::<\[std::string::String\]>': 2, 'ExtendElement|extend_desugared|extend_trusted|SpecExtend|from_iter': 2}, 'bounds': 'presence pattern cli=0 endpoint=1 global=0; file names symbolic; [global] table present or absent', 'asserts': 'Endpoint::to_generic hands the HTTP layer exactly command line ++ endpoint ++ global root certificates, in order'},
                {'name': 'c18_roots_011', 'file': CFG, 'timeout': 1500, 'unwindset': {'memcmp': 3, 'ConvertVec>::to_vec': 3, r'drop_glue::<\[std::string::String\]>': 3, 'ExtendElement|extend_desugared|extend_trusted|SpecExtend|from_iter': 3}, 'bounds': 'presence pattern cli=0 endpoint=1 global=1; file names symbolic; [global] table present or absent', 'asserts': 'Endpoint::to_generic hands the HTTP layer exactly command line ++ endpoint ++ global root certificates, in order'},
                {'name': 'c18_roots_100', 'file': CFG, 'timeout': 1500, 'unwindset': {'memcmp': 3, 'ConvertVec>::to_vec': 2, r'drop_glue::<\[std::string::String\]>': 2, 'ExtendElement|extend_desugared|extend_trusted|SpecExtend|from_iter': 2}, 'bounds': 'presence pattern cli=1 endpoint=0 global=0; file names symbolic; [global] table present or absent', 'asserts': 'Endpoint::to_generic hands the HTTP layer exactly command line ++ endpoint ++ global root certificates, in order'},
                {'name': 'c18_roots_101', 'file': CFG, 'timeout': 1500, 'unwindset': {'memcmp': 3, 'ConvertVec>::to_vec': 3, r'drop_glue::<\[std::string::String\]>': 3, 'ExtendElement|extend_desugared|extend_trusted|SpecExtend|from_iter': 3}, 'bounds': 'presence pattern cli=1 endpoint=0 global=1; file names symbolic; [global] table present or absent', 'asserts': 'Endpoint::to_generic hands the HTTP layer exactly command line ++ endpoint ++ global root certificates, in order'},
                {'name': 'c18_roots_110', 'file': CFG, 'timeout': 1500, 'unwindset': {'memcmp': 3, 'ConvertVec>::to_vec': 3, r'drop_glue::<\[std::string::String\]>': 3, 'ExtendElement|extend_desugared|extend_trusted|SpecExtend|from_iter': 3}, 'bounds': 'presence pattern cli=1 endpoint=1 global=0; file names symbolic; [global] table present or absent', 'asserts': 'Endpoint::to_generic hands the HTTP layer exactly command line ++ endpoint ++ global root certificates, in order'},
                {'name': 'c18_roots_111', 'file': CFG, 'timeout': 1500, 'unwindset': {'memcmp': 3, 'ConvertVec>::to_vec': 4, r'drop_glue::<\[std::string::String\]>': 4, 'ExtendElement|extend_desugared|extend_trusted|SpecExtend|from_iter': 4}, 'bounds': 'presence pattern cli=1 endpoint=1 global=1; file names symbolic; [global] table present or absent', 'asserts': 'Endpoint::to_generic hands the HTTP layer exactly command line ++ endpoint ++ global root certificates, in order'},
            ],
        },
    ],
}
