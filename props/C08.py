import os, sys
sys.path.insert(0, os.path.dirname(__file__))
from _common import *
ERR = 'acmed/src/acme_proto/structs/error.rs'
SPEC = {
    'id': 'C08',
    'outside': 'redirects (reqwest), JSON parsing of the problem body (serde_json), non-ASCII type strings, type strings longer than 48 bytes',
    'assumptions': [],
    'units': [
        {
            'name': 'classify',
            'harness_files': {ERR: 'harness/acme_error.rs'},
            'harnesses': [
                {'name': 'c08_classify_witness', 'file': ERR, 'kind': 'witness', 'timeout': 900, 'bounds': '8 concrete URNs, symbolic choice', 'asserts': 'both classes reachable'},
                {'name': 'c08_recoverable_iff_listed', 'file': ERR, 'timeout': 1800, 'bounds': 'every ASCII string of 0..48 bytes as problem type; unwind 50',
                 'asserts': 'HttpApiError::get_acme_type().is_recoverable() <=> type is one of the 7 URNs'},
                {'name': 'c08_absent_type_not_recoverable', 'file': ERR, 'timeout': 900, 'bounds': 'type absent, status any', 'asserts': 'not recoverable'},
            ],
        },
    ],
}
