import os, sys
sys.path.insert(0, os.path.dirname(__file__))
from _common import *
ERR = 'acmed/src/acme_proto/structs/error.rs'
MAXS = 14
HTTP_UW = {r'http::post': 11, 'check_post_conversation': MAXS + 1, 'is_nonce|all::<|Bytes': 3, 'memcmp': 3, 'simd_bitmask': 17}
SPEC = {
    'id': 'C08',
    'outside': 'the retry loop of http::post itself (CBMC 6.11 aborts with an internal error "l2_rename_rvalues case struct not handled" on the generic data-builder call; harness kept in harness/http.rs, unregistered), polling loops of acme_proto/http.rs, redirects (reqwest), JSON parsing of the problem body (serde_json), non-ASCII type strings, type strings longer than 48 bytes',
    'assumptions': [],
    'units': [
        {
            'name': 'classify',
            'harness_files': {ERR: 'harness/acme_error.rs'},
            'harnesses': [
                {'name': 'c08_classify_witness', 'file': ERR, 'kind': 'witness', 'timeout': 900, 'bounds': '8 concrete URNs, symbolic choice', 'asserts': 'both classes reachable'},
                {'name': 'c08_recoverable_iff_listed', 'file': ERR, 'timeout': 1800, 'bounds': 'every ASCII string of 0..48 bytes as problem type; unwind 50',
                 'asserts': 'HttpApiError::get_acme_type().is_recoverable() <=> type is one of the 7 URNs'},
                {'name': 'c08_absent_type_not_recoverable', 'file': ERR, 'timeout': 900, 'bounds': 'type absent, status any', 'asserts': 'not recoverable'},
            ],
        },
        {
            'name': 'post', 'shims': ['reqwest'], 'edits': HTTP_EDITS, 'assumptions': HTTP_ASSUMPTIONS,
            'harness_files': {HTTPF: 'harness/http.rs'},
            'harnesses': [
                {'name': 'c09_get_limited_and_nonce_kept', 'file': HTTPF, 'timeout': 1800, 'unwindset': HTTP_UW, 'bounds': 'one get() call, answer chosen by the solver', 'asserts': 'one limiter pass before the send; nonce kept iff valid; malformed nonce and non-2xx rejected'},
            ],
        },
    ],
}
