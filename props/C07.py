import os, sys
sys.path.insert(0, os.path.dirname(__file__))
from _common import *
UW = {'simd_bitmask': 17, 'swap_nonoverlapping': 8, 'renew_certificate': 5, 'block_on': 3}

import re
def gen_renew(d, cache, cut):
    """Source slice: body of renew_certificate (without its final tuple), de-sugared to one task."""
    p = os.path.join(d, MLF)
    src = cache[p]
    real = src.split('#[cfg(kani)]')[0]
    a, b = 'let backoff = [', '\t(certificate, account_s.clone(), endpoint_s.clone())'
    if real.count(a) != 1 or real.count(b) != 1:
        raise cut.EncodeError('slice: anchors of renew_certificate not found exactly once')
    sl = real[real.index(a):real.index(b)]
    for pat, rep in [(r'certificate\.schedule_renewal\(\)\s*\.await', 'block_on(certificate.schedule_renewal())'),
                     (r'certificate\s*\.call_post_operation_hooks\(&status, is_success\)\s*\.await', 'block_on(certificate.call_post_operation_hooks(&status, is_success))')]:
        sl, k = re.subn(pat, rep, sl)
        if k != 1:
            raise cut.EncodeError('slice: %r expected once, got %d' % (pat, k))
    sl, k = re.subn(r'\s*\.await\b', '', sl)
    if k != 3:
        raise cut.EncodeError('slice: expected 3 remaining .await (2 sleeps, 1 request), got %d' % k)
    cache[p] = src.replace('VERIF_RENEW_SLICE', '\t' + sl)


SLICE_UNIT = {
    'name': 'attempt_slice', 'shims': ['openssl'], 'edits': [SCHED_CUT, POSTOP_CUT, ML_SLEEP_CUT], 'gen': gen_renew,
    'assumptions': ['source slice: the body of main_event_loop::renew_certificate (all statements before its final tuple) is pasted verbatim from /repo into renew_slice() and de-sugared to one task (`.await` dropped; the two Certificate methods run through the one-poll executor)',
                    'the account/endpoint handles are an opaque clonable unit type in the slice (the function only clones and forwards them); request_certificate and sleep resolve to local models: the request fails or succeeds on the solver\'s choice, sleep records the requested duration'],
    'harness_files': {MLF: ['harness/main_event_loop.rs', 'harness/main_event_loop_slice.rs']},
    'harnesses': [
        {'name': 'c07_slice_witness', 'file': MLF, 'kind': 'witness', 'timeout': 1200, 'unwindset': dict(UW, renew_slice=5, memcmp=9), 'bounds': 'one attempt, <= 2 scheduling errors', 'asserts': 'success, reported failure and scheduling retries reachable'},
        {'name': 'c07_slice_attempt_reports_once', 'file': MLF, 'timeout': 1500, 'unwindset': dict(UW, renew_slice=5, memcmp=9),
         'bounds': 'one attempt; scheduling answers: <= 2 errors then any u32 seconds; request and post-operation hooks each fail or succeed (symbolic)',
         'asserts': 'one request, post-operation hooks exactly once, is_success == request Ok, status "success" iff Ok, hook failure contained (the function returns), >= 60 s back-off per scheduling error'},
    ],
}
SPEC = {
    'id': 'C07',
    'outside': 'process survival under real panics/aborts; what happens inside request_certificate (cut: it fails or succeeds on the solver\'s choice); hook exit-code plumbing (C10); non-interference between several certificates (needs interleavings: C12); "bounded time" is only "bounded number of environment interactions"',
    'assumptions': ['Certificate::schedule_renewal, acme_proto::request_certificate and Certificate::call_post_operation_hooks cut to contract models (see harness/main_event_loop.rs)',
                    'tokio::time::sleep replaced by a recording model; openssl model for the account key; RandomState/fmt::format stubbed'],
    'units': [
        SLICE_UNIT,
        {
            'name': 'attempt', 'shims': ['openssl'], 'edits': [SCHED_CUT, POSTOP_CUT, REQCERT_CUT, ML_SLEEP_CUT],
            'harness_files': {MLF: 'harness/main_event_loop.rs'},
            'harnesses': [
                {'name': 'c07_witness', 'file': MLF, 'tiers': ['dbg'], 'kind': 'witness', 'timeout': 1500, 'unwindset': UW, 'bounds': 'one attempt, <= 2 scheduling errors', 'asserts': 'success, failure and scheduling retries reachable'},
                {'name': 'c07_attempt_reports_once', 'file': MLF, 'tiers': ['dbg'], 'timeout': 1800, 'unwindset': UW,
                 'bounds': 'one attempt; scheduling answers: <= 2 errors then any u32 seconds; request and post-operation hook each fail or succeed (symbolic)',
                 'asserts': 'one request, post-operation hooks exactly once, is_success == request Ok, status "success" iff Ok, hook failure contained, >= 60 s back-off per scheduling error'},
                {'name': 'c07_no_tight_loop_after_failure', 'file': MLF, 'tiers': ['dbg'], 'timeout': 2400, 'unwindset': UW,
                 'bounds': 'two chained attempts, every combination of outcomes and scheduling answers (incl. ZERO)',
                 'asserts': '>= 1 s of sleep requested between a failed request and the next request'},
            ],
        },
    ],
}
