import os, sys
sys.path.insert(0, os.path.dirname(__file__))
from _common import *
UW = {'simd_bitmask': 17, 'swap_nonoverlapping': 8, 'renew_certificate': 5, 'block_on': 3}
SPEC = {
    'id': 'C07',
    'outside': 'process survival under real panics/aborts; what happens inside request_certificate (cut: it fails or succeeds on the solver\'s choice); hook exit-code plumbing (C10); non-interference between several certificates (needs interleavings: C12); "bounded time" is only "bounded number of environment interactions"',
    'assumptions': ['Certificate::schedule_renewal, acme_proto::request_certificate and Certificate::call_post_operation_hooks cut to contract models (see harness/main_event_loop.rs)',
                    'tokio::time::sleep replaced by a recording model; openssl model for the account key; RandomState/fmt::format stubbed'],
    'units': [
        {
            'name': 'attempt', 'shims': ['openssl'], 'edits': [SCHED_CUT, POSTOP_CUT, REQCERT_CUT, ML_SLEEP_CUT],
            'harness_files': {MLF: 'harness/main_event_loop.rs'},
            'harnesses': [
                {'name': 'c07_witness', 'file': MLF, 'kind': 'witness', 'timeout': 1500, 'unwindset': UW, 'bounds': 'one attempt, <= 2 scheduling errors', 'asserts': 'success, failure and scheduling retries reachable'},
                {'name': 'c07_attempt_reports_once', 'file': MLF, 'timeout': 1800, 'unwindset': UW,
                 'bounds': 'one attempt; scheduling answers: <= 2 errors then any u32 seconds; request and post-operation hook each fail or succeed (symbolic)',
                 'asserts': 'one request, post-operation hooks exactly once, is_success == request Ok, status "success" iff Ok, hook failure contained, >= 60 s back-off per scheduling error'},
                {'name': 'c07_no_tight_loop_after_failure', 'file': MLF, 'timeout': 2400, 'unwindset': UW,
                 'bounds': 'two chained attempts, every combination of outcomes and scheduling answers (incl. ZERO)',
                 'asserts': '>= 1 s of sleep requested between a failed request and the next request'},
            ],
        },
    ],
}
