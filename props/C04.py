import os, sys
sys.path.insert(0, os.path.dirname(__file__))
from _common import *
from C15 import SPEC as C15
K = 'acme_common/src/crypto/openssl_keys.rs'
keep = ('c15_alg_compat_table', 'c15_sign_dispatch_rsa_eddsa', 'c15_ecdsa_len_p256', 'c15_ecdsa_len_p384', 'c15_ecdsa_len_p521', 'c15_ecdsa_sig_part_padding_small')
u0 = dict(C15['units'][0])
u0['harnesses'] = [h for h in u0['harnesses'] if h['name'] in keep]
SPEC = {
    'id': 'C04',
    'outside': 'the JWS envelope itself (protected header members url/nonce/kid/jwk, payload encoding: serde_json + base64 + format! over symbolic strings did not converge), nonce freshness across POST retries (CBMC internal error on the http::post harness), key roll-over and external account binding objects, cryptographic validity of signatures (OpenSSL)',
    'assumptions': C15['assumptions'] + HTTP_ASSUMPTIONS,
    'units': [
        u0,
        {
            'name': 'http_get', 'shims': ['reqwest'], 'edits': HTTP_EDITS,
            'harness_files': {HTTPF: 'harness/http.rs'},
            'harnesses': [
                {'name': 'c09_get_limited_and_nonce_kept', 'file': HTTPF, 'timeout': 1800, 'unwindset': {'is_nonce|all::<|Bytes': 3, 'memcmp': 3, 'simd_bitmask': 17},
                 'bounds': 'one http::get call, answer chosen by the solver', 'asserts': 'a nonce is stored only if the server issued a well-formed one (no invented nonce); a malformed Replay-Nonce is rejected'},
            ],
        },
    ],
}
