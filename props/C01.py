import os, sys
sys.path.insert(0, os.path.dirname(__file__))
from _common import *
ORD = 'acmed/src/acme_proto/structs/order.rs'
ACC = 'acme_common/src/crypto/openssl_certificate.rs'
N3 = {'new_order_n|c01_new_order': 4, 'from_iter|extend|fold|SpecFromIter|collect': 4}
N1 = {'new_order_n|c01_new_order': 2, 'from_iter|extend|fold|SpecFromIter|collect': 2}
SPEC = {
    'id': 'C01',
    'outside': 'JSON serialisation of the order (serde_json), IDNA/punycode conversion and textual IP canonicalisation (to_idna / IpAddr parser over symbolic strings did not converge), DER encoding and self-signature of the CSR (OpenSSL), the link "CSR key == key file" (request_certificate flow harness did not converge), 4..8 identifiers',
    'assumptions': ['std::hash::RandomState::new stubbed'],
    'units': [
        {
            'name': 'order', 'harness_files': {ORD: 'harness/order.rs'},
            'harnesses': [
                {'name': 'c01_new_order_1', 'file': ORD, 'timeout': 1200, 'unwindset': N1, 'bounds': '1 identifier, type and 1-byte value symbolic', 'asserts': 'NewOrder::new lists exactly the configured identifiers (type, value)'},
                {'name': 'c01_new_order_name_and_wildcard', 'file': ORD, 'timeout': 1800, 'unwindset': {'from_iter|extend|fold|SpecFromIter|collect|dedup': 3, 'memcmp': 4},
                 'bounds': 'identifiers [a, *.a] or [*.a, a] (order symbolic)', 'asserts': 'both identifiers are ordered, in order, wildcard prefix kept'},
                {'name': 'c01_new_order_3', 'file': ORD, 'timeout': 1800, 'unwindset': N3, 'bounds': '3 identifiers, types and values symbolic', 'asserts': 'NewOrder::new keeps count, order, type and value of every identifier'},
            ],
        },
        {
            'name': 'ac_csr', 'pkg': 'acme_common', 'features': 'openssl_dyn', 'shims': ['openssl'],
            'assumptions': ['openssl model: X509ReqBuilder / SubjectAlternativeName / X509NameBuilder are records of what they were given'],
            'harness_files': {ACC: 'harness/ac_certificate.rs'},
            'harnesses': [
                {'name': 'c01_csr_record_no_attr', 'file': ACC, 'timeout': 1800, 'unwindset': {'Csr::new': 3, 'ConvertVec>::to_vec': 4, 'simd_bitmask': 17, r'drop_glue::<\[': 4, 'swap_nonoverlapping': 8},
                 'bounds': '5 key types x 3 digests, any key identity, 2 DNS names + 1 IP (symbolic 1-byte values), no subject attribute',
                 'asserts': 'CSR pubkey == signer == given key; digest as configured (none for EdDSA); SAN = given names in order; empty subject'},
                {'name': 'c01_csr_record_one_attr', 'file': ACC, 'timeout': 1800, 'unwindset': {'Csr::new': 3, 'ConvertVec>::to_vec': 3, 'simd_bitmask': 17, r'drop_glue::<\[': 3, 'swap_nonoverlapping': 8},
                 'bounds': 'same with one subject attribute (organization_name)', 'asserts': 'same + the subject carries exactly that attribute'},
            ],
        },
    ],
}
