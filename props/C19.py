import os, sys
sys.path.insert(0, os.path.dirname(__file__))
from _common import *
DUR = 'acmed/src/duration.rs'
FOLD = r'nom::multi::fold_many1'

def gen_duration(d, cache, cut):
    """Source slice: paste the init and fold closures of get_duration into the harness."""
    import os
    p = os.path.join(d, DUR)
    src = cache[p]
    real = src.split('#[cfg(kani)]')[0]
    args = cut.call_args(real, 'fold_many1')
    if len(args) != 3:
        raise cut.EncodeError('slice: fold_many1 does not have 3 arguments')
    cache[p] = src.replace('VERIF_SLICE_FOLD_INIT', args[1]).replace('VERIF_SLICE_FOLD_STEP', args[2])


SPEC = {
    'id': 'C19',
    'outside': 'TOML syntax / serde type errors (toml+serde are beyond a symbolic string), include cycles (file I/O), more than 2 parts per period, symbolic digits in two-part periods beyond 2 digits per part (long two-part periods: concrete digits + source slice of the fold), alphabets other than stated.',
    'assumptions': ['alloc::fmt::format stubbed to return an empty string (error message text is not the subject)',
                    'CBMC raw-pointer checks off (safe Rust; Rust panics stay on as assertions)',
                    'source slice: the initialiser and folding closure of duration::get_duration are pasted verbatim from /repo into c19_dur_fold_slice'],
    'units': [
        {
            'name': 'duration',
            'pkg': 'acmed',
            'harness_files': {DUR: 'harness/duration.rs'},
            'gen': gen_duration,
            'harnesses': [
                {'name': 'c19_dur_witness', 'file': DUR, 'kind': 'witness', 'timeout': 1500, 'unwindset': {FOLD: 3},
                 'bounds': '2 digits + unit or x', 'asserts': 'parser accepts and rejects (reachability)'},
                {'name': 'c19_dur_fold_slice', 'file': DUR, 'timeout': 900,
                 'bounds': 'any two parts of whole seconds (u64 each)', 'asserts': 'fold of get_duration: no panic; Some(exact sum) iff it fits u64 seconds'},
                {'name': 'c19_dur_part_lead3_s', 'file': DUR, 'timeout': 2400,
                 'bounds': '1..20 digits: 3 leading digits free, the rest 0; unit s; unwind 23', 'asserts': 'get_duration_part: no panic; Ok(d) iff nb*mult fits u64 and d == nb*mult'},
                {'name': 'c19_dur_part_lead3_m', 'file': DUR, 'timeout': 2400,
                 'bounds': '1..20 digits: 3 leading digits free, the rest 0; unit m; unwind 23', 'asserts': 'get_duration_part: no panic; Ok(d) iff nb*mult fits u64 and d == nb*mult'},
                {'name': 'c19_dur_part_lead3_h', 'file': DUR, 'timeout': 2400,
                 'bounds': '1..20 digits: 3 leading digits free, the rest 0; unit h; unwind 23', 'asserts': 'get_duration_part: no panic; Ok(d) iff nb*mult fits u64 and d == nb*mult'},
                {'name': 'c19_dur_part_lead3_d', 'file': DUR, 'timeout': 2400,
                 'bounds': '1..20 digits: 3 leading digits free, the rest 0; unit d; unwind 23', 'asserts': 'get_duration_part: no panic; Ok(d) iff nb*mult fits u64 and d == nb*mult'},
                {'name': 'c19_dur_part_lead3_w', 'file': DUR, 'timeout': 2400,
                 'bounds': '1..20 digits: 3 leading digits free, the rest 0; unit w; unwind 23', 'asserts': 'get_duration_part: no panic; Ok(d) iff nb*mult fits u64 and d == nb*mult'},
                {'name': 'c19_dur_part', 'file': DUR, 'tiers': ['dbg'], 'timeout': 14400, 'mem_gb': 30,
                 'bounds': '1..20 free digits + any unit; unwind 23', 'asserts': 'get_duration_part: no panic; Ok(d) iff nb*mult fits u64 and d == nb*mult'},
                {'name': 'c19_dur_sum_overflow_concrete', 'file': DUR, 'tiers': ['thorough'], 'timeout': 7200, 'unwindset': {FOLD: 4}, 'violation_without_playback': True,
                 'bounds': '"18446744073709551615s1<u>", u any unit', 'asserts': 'parse_duration: Err, no panic'},
                {'name': 'c19_dur_sum_max_concrete', 'file': DUR, 'tiers': ['thorough'], 'timeout': 3600, 'unwindset': {FOLD: 4}, 'violation_without_playback': True,
                 'bounds': '"18446744073709551614s1s"', 'asserts': 'parse_duration: Ok(u64::MAX s)'},
                {'name': 'c19_dur_grammar3', 'file': DUR, 'timeout': 2400, 'unwindset': {FOLD: 3},
                 'bounds': 'every string of 0..3 bytes over [0 1 9 s m h w x space]; unwind 6',
                 'asserts': 'accepted iff ([0-9]+[smhdw])+ ; value == independent reference parser'},
                {'name': 'c19_dur_grammar4', 'file': DUR, 'tiers': ['thorough'], 'timeout': 3600, 'unwindset': {FOLD: 4},
                 'bounds': 'every string of 0..4 bytes over [0 1 9 s m h w x space]; unwind 7',
                 'asserts': 'accepted iff ([0-9]+[smhdw])+ ; value == independent reference parser'},
                {'name': 'c19_dur_two_parts_small', 'file': DUR, 'tiers': ['thorough'], 'timeout': 5400, 'unwindset': {FOLD: 4},
                 'bounds': 'two parts of 1..2 digits + unit each; unwind 9',
                 'asserts': 'no panic; d == sum of the parts'},
                {'name': 'c19_dur_grammar6', 'file': DUR, 'tiers': ['thorough'], 'timeout': 7200, 'unwindset': {FOLD: 5},
                 'bounds': 'every string of 0..6 bytes over [0 1 9 s m h w x space]; unwind 9', 'asserts': 'accepted iff grammar; value == reference'},
            ],
        },
        {
            'name': 'ratelimit',
            'edits': [SLEEP_CUT, NOW_CUT],
            'assumptions': ENDPOINT_ASSUMPTIONS,
            'harness_files': {EP: 'harness/endpoint.rs'},
            'harnesses': [
                {'name': 'c19_rl_sleep_duration_n1', 'file': EP, 'timeout': 900, 'bounds': 'number=1, period any u64 seconds', 'asserts': 'get_sleep_duration: no panic, result within [MIN,MAX]'},
                {'name': 'c19_rl_sleep_duration_n_2p32', 'file': EP, 'timeout': 900, 'bounds': 'number=2^32, period any u64 seconds', 'asserts': 'get_sleep_duration: no panic, result within [MIN,MAX]'},
                {'name': 'c19_rl_sleep_duration_n_max', 'file': EP, 'timeout': 900, 'bounds': 'number=usize::MAX, period any u64 seconds', 'asserts': 'get_sleep_duration: no panic, result within [MIN,MAX]'},
                {'name': 'c19_rl_sleep_duration_n_shifted', 'file': EP, 'timeout': 900, 'bounds': 'number = 2^k for every k in 0..63, period 2 s', 'asserts': 'get_sleep_duration: no panic, result within [MIN,MAX]'},
                {'name': 'c19_rl_sleep_duration_n7', 'file': EP, 'timeout': 900, 'bounds': 'number=7, period any u64 seconds', 'asserts': 'get_sleep_duration: no panic, result within [MIN,MAX]'},
            ],
        },
        {
            'name': 'ratelimit_new',
            'edits': [SLEEP_CUT, NOW_CUT, PARSE_DURATION_CUT],
            'assumptions': ENDPOINT_ASSUMPTIONS + ['duration::parse_duration cut: returns Err or any Duration of whole seconds (verified separately above)'],
            'harness_files': {EP: 'harness/endpoint.rs'},
            'harnesses': [
                {'name': 'c19_rl_zero_among_two', 'file': EP, 'timeout': 1500, 'unwindset': {'RateLimit::new': 3, 'sort|insertion|merge|reverse': 3, 'swap_nonoverlapping': 8},
                 'bounds': 'two limits, one with number 0 (either position), periods any u64 seconds or rejected', 'asserts': 'RateLimit::new rejects the configuration'},
                {'name': 'c19_rl_first_request_n0', 'file': EP, 'timeout': 1500, 'bounds': 'number=0, period any u64 seconds (or rejected by the cut parser), empty log',
                 'asserts': 'RateLimit::new rejects, or the first request is admitted after one sleep: no division by zero, no overflow, no permanent refusal'},
                {'name': 'c19_rl_first_request_n1', 'file': EP, 'timeout': 1500, 'bounds': 'number=1, period any u64 seconds (or rejected by the cut parser), empty log',
                 'asserts': 'RateLimit::new rejects, or the first request is admitted after one sleep: no division by zero, no overflow, no permanent refusal'},
                {'name': 'c19_rl_first_request_n3', 'file': EP, 'timeout': 1500, 'bounds': 'number=3, period any u64 seconds (or rejected by the cut parser), empty log',
                 'asserts': 'RateLimit::new rejects, or the first request is admitted after one sleep: no division by zero, no overflow, no permanent refusal'},
            ],
        },
    ],
}
