import os, sys
sys.path.insert(0, os.path.dirname(__file__))
from _common import *
DUR = 'acmed/src/duration.rs'
FOLD = r'nom::multi::fold_many1'
SPEC = {
    'id': 'C19',
    'outside': 'TOML syntax / serde type errors (toml+serde are beyond a symbolic string), include cycles (file I/O), periods longer than 20 digits per part or more than 2 parts, alphabets other than stated.',
    'assumptions': ['alloc::fmt::format stubbed to return an empty string (error message text is not the subject)',
                    'CBMC raw-pointer checks off (safe Rust; Rust panics stay on as assertions)'],
    'units': [
        {
            'name': 'duration',
            'pkg': 'acmed',
            'harness_files': {DUR: 'harness/duration.rs'},
            'harnesses': [
                {'name': 'c19_dur_witness', 'file': DUR, 'kind': 'witness', 'timeout': 900, 'unwindset': {FOLD: 3},
                 'bounds': '2 digits + unit or x', 'asserts': 'parser accepts and rejects (reachability)'},
                {'name': 'c19_dur_part', 'file': DUR, 'timeout': 1800,
                 'bounds': '1..20 free digits + any unit; unwind 23', 'asserts': 'get_duration_part: no panic; Ok(d) iff nb*mult fits u64 and d == nb*mult'},
                {'name': 'c19_dur_grammar4', 'file': DUR, 'timeout': 1500, 'unwindset': {FOLD: 4},
                 'bounds': 'every string of 0..4 bytes over [0 1 9 s m h w x space]; unwind 7',
                 'asserts': 'accepted iff ([0-9]+[smhdw])+ ; value == independent reference parser'},
                {'name': 'c19_dur_two_parts_small', 'file': DUR, 'timeout': 1800, 'unwindset': {FOLD: 4},
                 'bounds': 'two parts of 1..2 digits + unit each; unwind 9',
                 'asserts': 'no panic; d == sum of the parts'},
                {'name': 'c19_dur_one_part', 'file': DUR, 'tiers': ['thorough'], 'timeout': 3600, 'unwindset': {FOLD: 3},
                 'bounds': '1..20 free digits + any unit; unwind 23', 'asserts': 'parse_duration: no panic; Ok(d) iff nb*mult fits u64 and d == nb*mult'},
                {'name': 'c19_dur_one_part_boundary', 'file': DUR, 'tiers': ['thorough'], 'timeout': 1800, 'unwindset': {FOLD: 3},
                 'bounds': '1..20 digits (4 leading digits free, others in {0,9}) + any unit; unwind 23',
                 'asserts': 'no panic; Ok(d) iff nb*mult fits u64 and d == nb*mult'},
                {'name': 'c19_dur_grammar6', 'file': DUR, 'tiers': ['thorough'], 'timeout': 3600, 'unwindset': {FOLD: 5},
                 'bounds': 'every string of 0..6 bytes over [0 1 9 s m h w x space]; unwind 9', 'asserts': 'accepted iff grammar; value == reference'},
                {'name': 'c19_dur_two_parts_wide', 'file': DUR, 'tiers': ['thorough'], 'timeout': 7200, 'unwindset': {FOLD: 4},
                 'bounds': 'two parts of 1..20 digits + unit each; unwind 44', 'asserts': 'no panic (sum overflow); d == exact sum'},
            ],
        },
        {
            'name': 'ratelimit',
            'edits': [SLEEP_CUT, NOW_CUT],
            'assumptions': ENDPOINT_ASSUMPTIONS,
            'harness_files': {EP: 'harness/endpoint.rs'},
            'harnesses': [
                {'name': 'c19_rl_sleep_duration_n1', 'file': EP, 'timeout': 900, 'bounds': 'number=1, period any u64 seconds', 'asserts': 'get_sleep_duration: no panic, result within [MIN,MAX]'},
                {'name': 'c19_rl_sleep_duration_n7', 'file': EP, 'timeout': 900, 'bounds': 'number=7, period any u64 seconds', 'asserts': 'get_sleep_duration: no panic, result within [MIN,MAX]'},
            ],
        },
        {
            'name': 'ratelimit_new',
            'edits': [SLEEP_CUT, NOW_CUT, PARSE_DURATION_CUT],
            'assumptions': ENDPOINT_ASSUMPTIONS + ['duration::parse_duration cut: returns Err or any Duration of whole seconds (verified separately above)'],
            'harness_files': {EP: 'harness/endpoint.rs'},
            'harnesses': [
                {'name': 'c19_rl_first_request', 'file': EP, 'timeout': 1500, 'bounds': 'number 0..3, period any u64 seconds, empty log',
                 'asserts': 'RateLimit::new rejects or the first request is admitted after one sleep: no division by zero, no permanent refusal'},
            ],
        },
    ],
}
