import os, sys
sys.path.insert(0, os.path.dirname(__file__))
from _common import *
CFG = 'acmed/src/config.rs'
LEN_DURATION_CUT = {'file': 'acmed/src/duration.rs', 'fn': 'parse_duration', 'body': '\tOk(Duration::from_secs(input.len() as u64))'}


def gen_config(d, cache, cut):
    """Source slice (DESIGN 2.5): statements applied by read_cnf per included file."""
    p = os.path.join(d, CFG)
    src = cache[p]
    real = src.split('#[cfg(kani)]')[0]
    sl = cut.slice_between(real, 'let mut add_cnf = read_cnf(')
    cache[p] = src.replace('VERIF_MERGE_SLICE', sl)


OPTS = ['accounts_directory', 'cert_file_group', 'cert_file_mode', 'cert_file_user', 'cert_file_ext', 'certificates_directory',
        'file_name_format', 'pk_file_group', 'pk_file_mode', 'pk_file_user', 'pk_file_ext', 'random_early_renew', 'renew_delay',
        'root_certificates']
MB = 'presence of the option in the including and in the included file: all 4 patterns (values tagged per file)'
MERGE = [{'name': 'c14_merge_' + o, 'file': CFG, 'timeout': 900, 'bounds': MB,
          'asserts': 'after the merge slice of read_cnf: global.%s == included value if present else including value' % o} for o in OPTS]
SPEC = {
    'id': 'C14',
    'outside': 'the env table of [global] in the merge (hashbrown clone/insert did not converge: solver out of memory at 20 GB), glob expansion, canonical-path de-duplication of includes, include cycles, duplicate certificate id and account lookup in MainEventLoop::new (file I/O + async constructor); include depth > 1 (the slice is applied per included file: inductive)',
    'assumptions': ['source slice: the statements read_cnf applies to each included file are pasted verbatim from /repo into merge_slice()',
                    'std::hash::RandomState::new stubbed to a fixed key (hash seeds do not matter to the property)'],
    'units': [
        {
            'name': 'merge',
            'edits': [LEN_DURATION_CUT],
            'assumptions': ['duration::parse_duration cut to an injective tag model (string length in seconds) so that the three levels carry distinct recognisable values; the real parser is the subject of C19'],
            'harness_files': {CFG: 'harness/config.rs'},
            'gen': gen_config,
            'harnesses': [
                {'name': 'c14_config_witness', 'file': CFG, 'kind': 'witness', 'timeout': 900, 'bounds': 'one hook, one endpoint', 'asserts': 'reachability of Ok/Err and of both levels'},
            ] + MERGE + [
                {'name': 'c14_merge_global_absent_in_main', 'file': CFG, 'timeout': 900, 'bounds': 'main without [global], included with/without', 'asserts': "included file's table taken as is"},
                {'name': 'c14_merge_sections_1_1', 'file': CFG, 'timeout': 1200, 'bounds': '1 entry per section in each file, symbolic content', 'asserts': 'sections concatenated in order, none lost, content unchanged'},
                {'name': 'c14_merge_sections_0_1', 'file': CFG, 'timeout': 1200, 'bounds': 'empty sections in main, 1 entry each in included', 'asserts': 'sections concatenated'},
                {'name': 'c14_merge_sections_1_0', 'file': CFG, 'timeout': 1200, 'bounds': '1 entry each in main, empty in included', 'asserts': 'sections concatenated'},
                {'name': 'c14_three_level_renew_delay_e0', 'file': CFG, 'timeout': 1200, 'bounds': 'presence at certificate and global level + [global] absent: all patterns; endpoint level fixed per instance (e0/e1)', 'asserts': 'most specific value wins (certificate > endpoint > global), else built-in default'},
                {'name': 'c14_three_level_renew_delay_e1', 'file': CFG, 'timeout': 1200, 'bounds': 'presence at certificate and global level + [global] absent: all patterns; endpoint level fixed per instance (e0/e1)', 'asserts': 'most specific value wins (certificate > endpoint > global), else built-in default'},
                {'name': 'c14_three_level_random_early_renew_e0', 'file': CFG, 'timeout': 1200, 'bounds': 'presence at certificate and global level + [global] absent: all patterns; endpoint level fixed per instance (e0/e1)', 'asserts': 'most specific value wins (certificate > endpoint > global), else built-in default'},
                {'name': 'c14_three_level_random_early_renew_e1', 'file': CFG, 'timeout': 1200, 'bounds': 'presence at certificate and global level + [global] absent: all patterns; endpoint level fixed per instance (e0/e1)', 'asserts': 'most specific value wins (certificate > endpoint > global), else built-in default'},
                {'name': 'c14_three_level_file_name_format_e0', 'file': CFG, 'timeout': 1200, 'bounds': 'presence at certificate and global level + [global] absent: all patterns; endpoint level fixed per instance (e0/e1)', 'asserts': 'most specific value wins (certificate > endpoint > global), else built-in default'},
                {'name': 'c14_three_level_file_name_format_e1', 'file': CFG, 'timeout': 1200, 'bounds': 'presence at certificate and global level + [global] absent: all patterns; endpoint level fixed per instance (e0/e1)', 'asserts': 'most specific value wins (certificate > endpoint > global), else built-in default'},
                {'name': 'c14_two_level_directory', 'file': CFG, 'timeout': 1200, 'bounds': 'all presence patterns', 'asserts': 'certificate, else global, else default'},
                {'name': 'c14_unknown_endpoint_rejected', 'file': CFG, 'timeout': 1500, 'bounds': 'endpoint name = any lower-case letter', 'asserts': 'Err iff the certificate endpoint reference does not resolve'},
                {'name': 'c14_unknown_rate_limit_rejected', 'file': CFG, 'timeout': 1500, 'bounds': 'rate limit name = any lower-case letter', 'asserts': 'Err iff the rate limit reference does not resolve (get_rate_limit, Endpoint::to_generic)'},
            ],
        },
    ],
}
