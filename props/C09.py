import os, sys
sys.path.insert(0, os.path.dirname(__file__))
from _common import *
H = 'harness/endpoint.rs'
STEP_B = 'arbitrary log of fixed length L=n (entries symbolic or ancient), period(s) 1..20 s with p1>=p2, clock 100..355 s, <=2 loop iterations; unwind 5-6'
STEP_A = '(A) <= n-1 pre-state entries inside each window of the admission, (B) nothing inside the longest window pruned, admission logged at its time'
SPEC = {
    'id': 'C09',
    'outside': 'rate-limit passes of http::post / new_nonce (CBMC internal error on the post harness, see C08), sub-second clock granularity; n > 3 per limit; more than 2 limits; what the server observes (send latency); several tasks sharing the limiter (the endpoint write lock serialises them: C12)',
    'assumptions': ENDPOINT_ASSUMPTIONS + ['induction argument of harness/endpoint.rs::step links the one-step claims to whole histories'],
    'units': [
        {
            'name': 'ratelimit',
            'edits': [SLEEP_CUT, NOW_CUT],
            'harness_files': {EP: H},
            'harnesses': [
                {'name': 'c09_witness', 'file': EP, 'kind': 'witness', 'timeout': 900, 'bounds': 'n=1, p=5 s, one logged entry at symbolic time', 'asserts': 'refusal, admission with/without pruning are all reachable'},
                {'name': 'c09_step_1limit_n1', 'file': EP, 'timeout': 1200, 'bounds': STEP_B, 'asserts': STEP_A},
                {'name': 'c09_step_1limit_n2', 'file': EP, 'timeout': 1200, 'bounds': STEP_B, 'asserts': STEP_A},
                {'name': 'c09_step_2limits_n2_n1', 'file': EP, 'timeout': 1500, 'bounds': STEP_B, 'asserts': STEP_A},
                {'name': 'c09_live_n2', 'file': EP, 'timeout': 1200, 'bounds': 'n=2, L=2, period 1..20 s', 'asserts': 'a request permitted by the limits returns after exactly one sleep'},
                {'name': 'c09_step_1limit_n3', 'file': EP, 'timeout': 2400, 'bounds': STEP_B, 'asserts': STEP_A},
                {'name': 'c09_step_2limits_n3_n2', 'file': EP, 'timeout': 2400, 'bounds': STEP_B, 'asserts': STEP_A},
            ],
        },
        {
            'name': 'ratelimit_new',
            'edits': [SLEEP_CUT, NOW_CUT, PARSE_DURATION_CUT],
            'assumptions': ['duration::parse_duration cut: returns Err or any Duration of whole seconds (the parser itself is verified under C19)'],
            'harness_files': {EP: H},
            'harnesses': [
                {'name': 'c09_new_sorted', 'file': EP, 'timeout': 1500, 'bounds': '3 limits, periods any u64 seconds', 'asserts': 'RateLimit::new sorts by decreasing period and keeps all pairs'},
            ],
        },
        {
            'name': 'http_get', 'shims': ['reqwest'], 'edits': HTTP_EDITS, 'assumptions': HTTP_ASSUMPTIONS,
            'harness_files': {HTTPF: 'harness/http.rs'},
            'harnesses': [
                {'name': 'c09_get_limited_and_nonce_kept', 'file': HTTPF, 'timeout': 1800, 'unwindset': {'is_nonce|all::<|Bytes': 3, 'memcmp': 3, 'simd_bitmask': 17},
                 'bounds': 'one http::get call, answer chosen by the solver (transport error | 2xx | non-2xx, nonce absent/valid/malformed)',
                 'asserts': 'exactly one pass through http::rate_limit before the request is sent; nonce kept iff valid; malformed nonce and non-2xx rejected'},
            ],
        },
    ],
}
