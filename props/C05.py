import os, sys
sys.path.insert(0, os.path.dirname(__file__))
from _common import *
CRT = 'acmed/src/certificate.rs'
UW = {r'Certificate::get_identifier_from_str': 3, 'memcmp': 4}
SPEC = {
    'id': 'C05',
    'outside': 'the request_certificate flow (ordering of hook vs challenge POST, skipping of valid authorizations: flow harness did not converge), proof strings (format!/serde_json/base64 over symbolic tokens did not converge), real SHA-256',
    'assumptions': ['std::hash::RandomState::new stubbed to a fixed key', 'alloc::fmt::format stubbed (error text)'],
    'units': [
        {
            'name': 'lookup',
            'harness_files': {CRT: 'harness/certificate.rs'},
            'harnesses': [
                {'name': 'c05_lookup_plain_then_wildcard', 'file': CRT, 'timeout': 1800, 'unwindset': UW, 'bounds': 'identifiers [a, *.a], 3x3 challenge assignments, wildcard flag symbolic',
                 'asserts': 'get_identifier_from_str(value, wildcard) returns the plain entry for a plain authorization and the wildcard entry for a wildcard one'},
                {'name': 'c05_lookup_wildcard_then_plain', 'file': CRT, 'timeout': 1800, 'unwindset': UW, 'bounds': 'identifiers [*.a, a], 3x3 challenge assignments, wildcard flag symbolic', 'asserts': 'same'},
                {'name': 'c05_lookup_single_plain', 'file': CRT, 'timeout': 1800, 'unwindset': {'memcmp': 4}, 'bounds': 'only "a" configured, flag symbolic; unknown name "c"', 'asserts': 'found whatever the flag; unknown rejected'},
                {'name': 'c05_lookup_single_wildcard', 'file': CRT, 'timeout': 1800, 'unwindset': {'memcmp': 4}, 'bounds': 'only "*.a" configured, flag symbolic; unknown name "c"', 'asserts': 'found whatever the flag; unknown rejected'},
            ],
        },
    ],
}
