import os, sys
sys.path.insert(0, os.path.dirname(__file__))
from _common import *
CRT = 'acmed/src/certificate.rs'
UW = {r'Certificate::get_identifier_from_str': 3, 'memcmp': 4}
SPEC = {
    'id': 'C05',
    'outside': 'the request_certificate flow (ordering of hook vs challenge POST, skipping of valid authorizations: flow harness did not converge), proof strings (format!/serde_json/base64 over symbolic tokens did not converge), real SHA-256',
    'assumptions': ['std::hash::RandomState::new stubbed to a fixed key', 'alloc::fmt::format stubbed (error text)'],
    'units': [
        {
            'name': 'lookup',
            'harness_files': {CRT: 'harness/certificate.rs'},
            'harnesses': [
                {'name': 'c05_lookup_plain_then_wildcard', 'file': CRT, 'timeout': 1800, 'unwindset': UW, 'bounds': 'identifiers [a, *.a], 3x3 challenge assignments, wildcard flag symbolic',
                 'asserts': 'get_identifier_from_str(value, wildcard) returns the plain entry for a plain authorization and the wildcard entry for a wildcard one'},
                {'name': 'c05_lookup_wildcard_then_plain', 'file': CRT, 'timeout': 1800, 'unwindset': UW, 'bounds': 'identifiers [*.a, a], 3x3 challenge assignments, wildcard flag symbolic', 'asserts': 'same'},
                {'name': 'c05_lookup_single_plain', 'file': CRT, 'timeout': 1800, 'unwindset': {'memcmp': 4}, 'bounds': 'only "a" configured, flag symbolic; unknown name "c"', 'asserts': 'found whatever the flag; unknown rejected'},
                {'name': 'c05_lookup_single_wildcard', 'file': CRT, 'timeout': 1800, 'unwindset': {'memcmp': 4}, 'bounds': 'only "*.a" configured, flag symbolic; unknown name "c"', 'asserts': 'found whatever the flag; unknown rejected'},
            ],
        },
        {
            'name': 'ac_jwk', 'pkg': 'acme_common', 'features': 'openssl_dyn', 'shims': ['openssl'],
            'edits': [{'file': 'acme_common/src/lib.rs', 'fn': 'b64_encode', 'body': '\tlet s = openssl::st();\n\tif s.b64_calls < 4 { s.b64_in_len[s.b64_calls] = input.as_ref().len(); }\n\ts.b64_calls += 1;\n\tString::new()'}],
            'assumptions': ['the key authorization is token "." base64url(SHA-256(JWK thumbprint)): its JWK input is checked here (fixed-width EC coordinates in the thumbprint form); acme_common::b64_encode cut (records input length), serde_json Map::insert stubbed'],
            'harness_files': {'acme_common/src/crypto/openssl_keys.rs': 'harness/ac_keys.rs'},
            'harnesses': [
                {'name': 'c15_ecdsa_jwk_thumbprint_p256', 'file': 'acme_common/src/crypto/openssl_keys.rs', 'timeout': 2400, 'unwindset': {'to_vec_padded': 33, r'serde_json::Map.*insert|map_insert_stub': 6},
                 'bounds': 'P-256 account key, public point x, y of ANY minimal length 1..32', 'asserts': 'the thumbprint JWK (input of every key authorization) encodes x and y from exactly 32 bytes'},
            ],
        },
    ],
}
