import os, sys
sys.path.insert(0, os.path.dirname(__file__))
from _common import *
K = 'acme_common/src/crypto/openssl_keys.rs'
OSSL = ['openssl model (env/openssl_env): keys are identities; ECDSA r/s, EC x/y, RSA n/e are minimal big-endian vectors of SYMBOLIC length and content (BN_bn2bin contract, first byte non-zero); to_vec_padded follows BN_bn2binpad; signatures are records (signer, digest, input length); SHA-2 is a structural fold, not a model of collision resistance']
def JWK_UW(n):
    return {'to_vec_padded': n + 1, r'serde_json::Map.*insert|map_insert_stub': 6, 'memcmp': 6}
SPEC = {
    'id': 'C15',
    'outside': 'OpenSSL key generation, PEM/DER round trips and real signature verification (C library); JWK member sets and base64url of coordinates (serde_json Value construction did not converge -- see DESIGN); EdDSA public-key string surgery (str::lines/replace over a symbolic PEM did not converge); r/s shorter than size-1 bytes through sign_ecdsa itself (covered for every length by the padding-macro harness at sizes <= 5)',
    'assumptions': OSSL,
    'units': [
        {
            'name': 'ac_keys', 'pkg': 'acme_common', 'features': 'openssl_dyn', 'shims': ['openssl'],
            'harness_files': {K: 'harness/ac_keys.rs'},
            'harnesses': [
                {'name': 'c15_witness', 'file': K, 'kind': 'witness', 'timeout': 1200, 'bounds': 'P-256, R of 31 or 32 bytes', 'asserts': 'short R, full R and refusal are reachable'},
                {'name': 'c15_alg_compat_table', 'file': K, 'timeout': 900, 'bounds': 'all 7 key types x 9 algorithms', 'asserts': 'compatible iff one of the 7 legal pairs'},
                {'name': 'c15_sign_dispatch_rsa_eddsa', 'file': K, 'timeout': 1200, 'bounds': 'RSA2048/4096, Ed25519, Ed448 x 9 algorithms', 'asserts': 'Ok iff legal pair; signed once by the key over the whole input with SHA-256 (RSA) / no pre-hash (EdDSA)'},
                {'name': 'c15_ecdsa_sig_part_padding_small', 'file': K, 'timeout': 1200, 'bounds': 'get_ecdsa_sig_part! for every size 1..5 and component length 1..size, symbolic bytes', 'asserts': 'exactly size bytes, right-aligned, zero-padded'},
                {'name': 'c15_ecdsa_len_p256', 'file': K, 'timeout': 1800, 'bounds': 'r and s of ANY minimal length 1..32 each (symbolic)', 'asserts': 'sign(): R||S has exactly 64 bytes'},
                {'name': 'c15_ecdsa_len_p384', 'file': K, 'timeout': 1800, 'bounds': 'r and s of ANY minimal length 1..48 each (symbolic)', 'asserts': 'sign(): R||S has exactly 96 bytes'},
                {'name': 'c15_ecdsa_len_p521', 'file': K, 'timeout': 1800, 'bounds': 'r and s of ANY minimal length 1..66 each (symbolic)', 'asserts': 'sign(): R||S has exactly 132 bytes'},
            ],
        },
        {
            'name': 'ac_jwk', 'pkg': 'acme_common', 'features': 'openssl_dyn', 'shims': ['openssl'],
            'edits': [{'file': 'acme_common/src/lib.rs', 'fn': 'b64_encode', 'body': '\tlet s = openssl::st();\n\tif s.b64_calls < 4 { s.b64_in_len[s.b64_calls] = input.as_ref().len(); }\n\ts.b64_calls += 1;\n\tString::new()'}],
            'assumptions': ['acme_common::b64_encode cut: records the length of its input and returns an empty string (base64 itself is the base64 crate: trusted)'],
            'harness_files': {K: 'harness/ac_keys.rs'},
            'harnesses': [
                {'name': 'c15_ecdsa_jwk_p256', 'file': K, 'timeout': 2400, 'unwindset': JWK_UW(32), 'bounds': 'P-256 public point x, y of ANY minimal length 1..32 (symbolic bytes)', 'asserts': 'x and y are each encoded from exactly 32 bytes (fixed width)'},
                {'name': 'c15_ecdsa_jwk_thumbprint_p256', 'file': K, 'timeout': 2400, 'unwindset': JWK_UW(32), 'bounds': 'same, thumbprint form', 'asserts': 'same'},
                {'name': 'c15_ecdsa_jwk_p384', 'file': K, 'timeout': 2400, 'unwindset': JWK_UW(48), 'bounds': 'P-384, x, y of any minimal length 1..48', 'asserts': 'encoded from exactly 48 bytes'},
                {'name': 'c15_ecdsa_jwk_p521', 'file': K, 'timeout': 2400, 'unwindset': JWK_UW(66), 'bounds': 'P-521, x, y of any minimal length 1..66', 'asserts': 'encoded from exactly 66 bytes'},
                {'name': 'c15_rsa_jwk', 'file': K, 'timeout': 2400, 'unwindset': JWK_UW(4), 'bounds': 'RSA n, e minimal vectors of symbolic length 1..4', 'asserts': 'e and n encoded from the minimal vectors'},
            ],
        },
    ],
}
