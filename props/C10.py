import os, sys
sys.path.insert(0, os.path.dirname(__file__))
from _common import *
HK = 'acmed/src/hooks.rs'
UW = {r'hooks::call': 4, 'simd_bitmask': 17, 'swap_nonoverlapping': 8, 'call_order': 4, 'memcmp': 2}
B = 'three hooks a,b,c; which of them list the event type fixed per instance; allow_failure of each and every exit status (success / code / signal) symbolic'
A = 'spawned children == hooks listing the type, in declaration order, cut after the first failure without allow_failure; Err iff that happened; never two children alive; every child waited for'
SPEC = {
    'id': 'C10',
    'outside': 'template rendering of args/stdin/stdout/stderr (minijinja), the environment handed to the child (HashMap iteration over symbolic keys did not converge), group expansion in Config::get_hook (did not converge), file-write hook bracketing in storage::write_file, clean-hook data in request_certificate (flow harness), real child processes',
    'assumptions': ['async-process model (env/async_process_env): spawn/wait recorded, exit status chosen by the solver', 'RandomState/fmt::format stubbed', 'the process environment is not read in these harnesses (no set_env call)'],
    'units': [
        {
            'name': 'call', 'shims': ['async-process'],
            'harness_files': {HK: 'harness/hooks.rs'},
            'harnesses': [
                {'name': 'c10_call_one_listed', 'file': HK, 'tiers': ['dbg'], 'timeout': 1200, 'unwindset': {r'hooks::call': 2, 'simd_bitmask': 17, 'swap_nonoverlapping': 8, 'memcmp': 2}},
                {'name': 'c10_call_one_not_listed', 'file': HK, 'tiers': ['dbg'], 'timeout': 1200, 'unwindset': {r'hooks::call': 2, 'simd_bitmask': 17, 'swap_nonoverlapping': 8, 'memcmp': 2}},
                {'name': 'c10_call_order_111', 'file': HK, 'timeout': 2400, 'unwindset': UW, 'bounds': B + ' (all three listed)', 'asserts': A},
                {'name': 'c10_call_order_101', 'file': HK, 'timeout': 2400, 'unwindset': UW, 'bounds': B + ' (a and c listed)', 'asserts': A},
                {'name': 'c10_call_order_011', 'file': HK, 'timeout': 2400, 'unwindset': UW, 'bounds': B + ' (b and c listed)', 'asserts': A},
                {'name': 'c10_call_order_000', 'file': HK, 'timeout': 2400, 'unwindset': UW, 'bounds': B + ' (none listed)', 'asserts': A},
            ],
        },
    ],
}
