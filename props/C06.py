import os, sys
sys.path.insert(0, os.path.dirname(__file__))
from _common import *
ACC = 'acme_common/src/crypto/openssl_certificate.rs'
SPEC = {
    'id': 'C06',
    'outside': "OpenSSL's ASN.1 time parsing and ASN1_TIME_diff itself (modelled by its contract); the main loop's actual sleeping (C07)",
    'assumptions': ['openssl model: Asn1Time::diff returns the symbolic (days, secs) pair; contract |secs| < 86400, same sign as days'],
    'units': [
        {
            'name': 'ac_cert', 'pkg': 'acme_common', 'features': 'openssl_dyn', 'shims': ['openssl'],
            'harness_files': {ACC: 'harness/ac_certificate.rs'},
            'harnesses': [
                {'name': 'c06_expires_in_exact', 'file': ACC, 'timeout': 900, 'bounds': 'days any i32, |secs| < 86400 same sign',
                 'asserts': 'no panic/overflow; expires_in == max(0, 86400*days + secs) computed in 128-bit'},
            ],
        },
    ],
}
