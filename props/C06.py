import os, sys
sys.path.insert(0, os.path.dirname(__file__))
from _common import *
ACC = 'acme_common/src/crypto/openssl_certificate.rs'
CRT = 'acmed/src/certificate.rs'
def uws(n):
    return {'put_cert': 5, 'X509::from_pem': n + 1, r'GeneralName as .*to_vec': n + 1, 'simd_bitmask': 17, 'swap_nonoverlapping': 8, 'memcmp': 3,
            r'drop_glue::<\[': max(n, 2) + 1, 'subject_alt_names': n + 1, 'has_missing_identifiers': 2}
UWS = uws(0)
SPEC = {
    'id': 'C06',
    'outside': "has_missing_identifiers (HashSet<String> comparison of configured identifiers and SANs: solver out of memory even for one name); OpenSSL's ASN.1 time parsing and ASN1_TIME_diff itself (modelled by its contract); the main loop's actual sleeping (C07)",
    'assumptions': ['openssl model: Asn1Time::diff returns the symbolic (days, secs) pair; contract |secs| < 86400, same sign as days'],
    'units': [
        {
            'name': 'ac_cert', 'pkg': 'acme_common', 'features': 'openssl_dyn', 'shims': ['openssl'],
            'harness_files': {ACC: 'harness/ac_certificate.rs'},
            'harnesses': [
                {'name': 'c06_expires_in_exact', 'file': ACC, 'timeout': 900, 'bounds': 'days any i32, |secs| < 86400 same sign',
                 'asserts': 'no panic/overflow; expires_in == max(0, 86400*days + secs) computed in 128-bit'},
            ],
        },
        {
            'name': 'schedule', 'shims': ['openssl', 'rand'], 'edits': [FILES_EXIST_CUT, GET_CERT_CUT],
            'assumptions': ['storage::certificate_files_exists / get_certificate cut to a file model (present/absent; certificate = model encoding parsed by the openssl model)',
                            'rand model: gen_range(a..b) returns ANY Duration of [a, b) and panics on an empty range like the real crate',
                            'alloc::fmt::format stubbed (log text)', 'std::hash::RandomState::new stubbed'],
            'harness_files': {CRT: 'harness/certificate.rs'},
            'harnesses': [
                {'name': 'c06_witness', 'file': CRT, 'kind': 'witness', 'timeout': 1500, 'unwindset': UWS, 'bounds': 'any (days, secs), files present or not', 'asserts': 'immediate and deferred renewal both reachable'},
                {'name': 'c06_renew_in_window_32bit', 'file': CRT, 'timeout': 2400, 'unwindset': UWS, 'bounds': 'any (days, secs); renew_delay and random_early_renew any u32 seconds', 'asserts': 'same as c06_renew_in_window'},
                {'name': 'c06_renew_in_window', 'file': CRT, 'tiers': ['thorough'], 'timeout': 7200, 'unwindset': UWS,
                 'bounds': 'any (days i32, secs) per ASN1_TIME_diff contract, any renew_delay and random_early_renew (u64 seconds)',
                 'asserts': 'max(0,E-D) - random_early_renew < renew_in <= max(0,E-D); equality when random_early_renew is 0; no panic/overflow'},
                {'name': 'c06_schedule_files_and_time', 'file': CRT, 'timeout': 1800, 'unwindset': UWS,
                 'bounds': 'files present or not, certificate readable or not, any (days, secs), renew_delay any u32 seconds, no identifier configured',
                 'asserts': 'ZERO iff a file is missing; Err iff present but unreadable; else exactly notAfter - renew_delay'},
            ],
        },
        {
            'name': 'files', 'shims': ['nix'],
            'edits': STORAGE_EDITS + [
                {'file': ST, 'fn': 'get_file_path', 'body': '\tlet k = file_type as usize;\n\tlet _ = fm;\n\tif crate::verif_env::env().fs_path_error[k] { return Err("path".into()); }\n\tOk(PathBuf::from(match k { 0 => "a", 1 => "k", _ => "c" }))'},
                {'file': ST, 'replace': 'path.is_file()', 'with': 'crate::verif_env::env().fs_type_exists[match path.to_str() { Some("a") => 0, Some("k") => 1, _ => 2 }]'},
            ],
            'assumptions': ['storage::get_file_path cut: the path of a file type is a one-letter name (or an error, symbolic); Path::is_file in check_files replaced by the existence flag of that file type'],
            'harness_files': {ST: 'harness/storage.rs'},
            'harnesses': [
                {'name': 'c06_files_exist_all_not_any', 'file': ST, 'timeout': 1800, 'unwindset': {'check_files': 3, 'memcmp': 2, 'drop_glue': 3, 'to_vec|from_elem': 3, 'try_from_fn|array::drain|from_fn': 4},
                 'bounds': 'existence and path-construction outcome of each of the three files symbolic (all 64 patterns)', 'asserts': 'certificate_files_exists == key file AND certificate file exist; account_files_exists == account file exists'},
            ],
        },
    ],
}
