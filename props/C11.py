import os, sys
sys.path.insert(0, os.path.dirname(__file__))
from _common import *
ACCT = 'acmed/src/account.rs'
UW = {'simd_bitmask': 17, 'swap_nonoverlapping': 8, 'memcmp': 33, 'sha::fold|openssl::sha': 40, 'sync_table': 4}
B = 'contacts / key / binding fingerprints each equal or different (symbolic), every request may fail (symbolic)'
A = 'register iff no URL or binding changed; one update per changed item, none otherwise; contacts update only when the signing key is the one the CA holds (key roll-over first); fingerprints on record equal the configuration after success; Err iff a request failed'
SPEC = {
    'id': 'C11',
    'outside': 'the request bodies themselves (JWS construction: C04), bincode persistence and truncation of the account file, restarts as processes, histories longer than one synchronize step (covered inductively from an arbitrary recorded state), more than one endpoint per account in one step',
    'assumptions': ['acme_proto::account::{register_account, update_account_contacts, update_account_key} cut to contract models (record event + signing-key check, fail on the solver\'s choice, update fingerprints through the real setters)',
                    'openssl model: keys are identities; SHA-256 is a structural fold', 'std::hash::RandomState::new and alloc::fmt::format stubbed'],
    'units': [
        {
            'name': 'sync', 'shims': ['openssl'], 'edits': [REGISTER_CUT, CONTACTS_CUT, KEY_CUT],
            'harness_files': {ACCT: 'harness/account.rs'},
            'harnesses': [
                {'name': 'dbg_c11_b', 'file': ACCT, 'tiers': ['dbg'], 'timeout': 900, 'unwindset': UW},
                {'name': 'c11_sync_no_url', 'file': ACCT, 'timeout': 1800, 'unwindset': UW, 'bounds': 'no account URL on record; ' + B, 'asserts': A},
                {'name': 'c11_sync_url_no_binding', 'file': ACCT, 'timeout': 1800, 'unwindset': UW, 'bounds': 'account URL on record, no external binding; ' + B, 'asserts': A},
                {'name': 'c11_sync_url_binding', 'file': ACCT, 'timeout': 1800, 'unwindset': UW, 'bounds': 'account URL on record, external binding configured; ' + B, 'asserts': A},
            ],
        },
    ],
}
