import os, sys
sys.path.insert(0, os.path.dirname(__file__))
from _common import *
ACCT = 'acmed/src/account.rs'
UW = {'simd_bitmask': 17, 'swap_nonoverlapping': 8, 'memcmp': 33, 'sha::fold|openssl::sha': 40, 'sync_table': 4}
B = 'contacts / key / binding fingerprints each equal or different (symbolic), every request may fail (symbolic)'
A = 'register iff no URL or binding changed; one update per changed item, none otherwise; contacts update only when the signing key is the one the CA holds (key roll-over first); fingerprints on record equal the configuration after success; Err iff a request failed'

import re
def _m(kind, extra):
    return ('\tlet e = crate::verif_env::env();\n'
            '\tlet _ = &endpoint;\n'
            '\tkani::assume(e.acc_ev_n < 4);\n'
            '\te.acc_ev[e.acc_ev_n] = %d;\n'
            '\te.acc_ev_key_ok[e.acc_ev_n] = account.current_key.key.inner_key.kid == e.ca_key_kid;\n'
            '\te.acc_ev_n += 1;\n'
            '\tif kani::any() { e.acc_failed = true; return Err("request failed".into()); }\n'
            + extra + '\tOk(())') % kind
S_REGISTER = {'file': APA, 'fn': 'register_account', 'body': _m(1, '\te.ca_key_kid = account.current_key.key.inner_key.kid;\n')}
S_CONTACTS = {'file': APA, 'fn': 'update_account_contacts', 'body': _m(2, '')}
S_KEY = {'file': APA, 'fn': 'update_account_key', 'body': _m(3, '\te.ca_key_kid = account.current_key.key.inner_key.kid;\n')}


def gen_sync(d, cache, cut):
    """Source slice: the update statements of Account::synchronize after the change flags."""
    p = os.path.join(d, ACCT)
    src = cache[p]
    real = src.split('#[cfg(kani)]')[0]
    sl = cut.slice_between(real, 'let key_changed = ')
    sl, k = re.subn(r'\b(update_account_contacts|update_account_key|register_account)\(endpoint, self\)\s*\.await\?', r'block_on(\1(endpoint, acc))?', sl)
    if k != 2 or 'self' in sl or '.await' in sl:
        raise cut.EncodeError('slice: synchronize update statements have an unexpected shape (%d calls)' % k)
    cache[p] = src.replace('VERIF_SYNC_SLICE', sl)


SLICE_UNIT = {
    'name': 'sync_slice', 'shims': ['openssl'], 'edits': [S_REGISTER, S_CONTACTS, S_KEY], 'gen': gen_sync,
    'assumptions': ['source slice: the statements of Account::synchronize that follow `let key_changed = ...` (the two conditional updates) are pasted verbatim from /repo into sync_slice(); `self` is the parameter acc, each `f(endpoint, self).await?` becomes `block_on(f(endpoint, acc))?`',
                    'the three request functions are cut to contract models: record the event and whether the key that signs it (account.current_key) is the key the CA holds; fail on the solver\'s choice; a successful key roll-over / registration makes the CA hold the current key',
                    'the change flags are symbolic booleans (fingerprint computation = hash_contacts / hash_key is outside this unit)'],
    'harness_files': {ACCT: ['harness/account.rs', 'harness/account_slice.rs']},
    'harnesses': [
        {'name': 'c11_slice_witness', 'file': ACCT, 'kind': 'witness', 'timeout': 900, 'unwindset': UW, 'bounds': 'both items changed', 'asserts': 'reachability of success with two requests and of failure'},
        {'name': 'c11_slice_update_order', 'file': ACCT, 'timeout': 1500, 'unwindset': dict(UW, c11_slice_update_order=5), 'bounds': 'contacts changed / key changed: all 4 patterns; every request may fail (symbolic); account URL on record, binding unchanged',
         'asserts': 'no registration; one update per changed item; a contacts update is only ever signed by the key the CA holds (key roll-over first); Ok iff no request failed; after Ok the CA holds the current key'},
    ],
}
SPEC = {
    'id': 'C11',
    'outside': 'the request bodies themselves (JWS construction: C04), bincode persistence and truncation of the account file, restarts as processes, histories longer than one synchronize step (covered inductively from an arbitrary recorded state), more than one endpoint per account in one step',
    'assumptions': ['acme_proto::account::{register_account, update_account_contacts, update_account_key} cut to contract models (record event + signing-key check, fail on the solver\'s choice, update fingerprints through the real setters)',
                    'openssl model: keys are identities; SHA-256 is a structural fold', 'std::hash::RandomState::new and alloc::fmt::format stubbed'],
    'units': [
        SLICE_UNIT,
        {
            'name': 'sync', 'shims': ['openssl'], 'edits': [REGISTER_CUT, CONTACTS_CUT, KEY_CUT],
            'harness_files': {ACCT: 'harness/account.rs'},
            'harnesses': [
                {'name': 'dbg_c11_b', 'file': ACCT, 'tiers': ['dbg'], 'timeout': 900, 'unwindset': UW},
                {'name': 'c11_sync_no_url', 'file': ACCT, 'tiers': ['dbg'], 'timeout': 1800, 'unwindset': UW, 'bounds': 'no account URL on record; ' + B, 'asserts': A},
                {'name': 'c11_sync_url_no_binding', 'file': ACCT, 'tiers': ['dbg'], 'timeout': 1800, 'unwindset': UW, 'bounds': 'account URL on record, no external binding; ' + B, 'asserts': A},
                {'name': 'c11_sync_url_binding', 'file': ACCT, 'tiers': ['dbg'], 'timeout': 1800, 'unwindset': UW, 'bounds': 'account URL on record, external binding configured; ' + B, 'asserts': A},
            ],
        },
    ],
}
